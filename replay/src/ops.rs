//! Per-property operations (extended as properties are added).
use serde_json::{json, Value};

pub fn run(op: &str, _req: &Value) -> Value {
    json!({"unknown_op": op})
}
