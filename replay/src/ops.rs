//! Per-property operations (extended as properties are added).
use std::collections::HashMap;
use std::str::FromStr;

use quil_rs::instruction::Instruction;
use quil_rs::quil::Quil;
use quil_rs::Program;
use serde_json::{json, Value};

fn dbg<T: std::fmt::Debug>(t: &T) -> Value {
    Value::String(format!("{:?}", t))
}

fn parse_instructions(text: &str) -> Result<Vec<Instruction>, String> {
    Program::from_str(text)
        .map(|p| p.to_instructions())
        .map_err(|e| format!("{e:?}"))
}

fn listing(v: &[Instruction]) -> Value {
    Value::Array(v.iter().map(dbg).collect())
}

/// A tiny script language over `Program` registers; used by the container / history properties.
/// Every step is `[op, args...]`; observation steps append to the output list.
fn script(req: &Value) -> Value {
    let mut regs: HashMap<String, Program> = HashMap::new();
    let mut out: Vec<Value> = vec![];
    let get = |regs: &HashMap<String, Program>, k: &Value| -> Program {
        regs.get(k.as_str().unwrap()).cloned().unwrap_or_default()
    };
    for step in req["script"].as_array().unwrap() {
        let a = step.as_array().unwrap();
        let op = a[0].as_str().unwrap();
        match op {
            "new" => {
                regs.insert(a[1].as_str().unwrap().to_string(), Program::new());
            }
            "from" => {
                let mut ins = vec![];
                for t in a[2].as_array().unwrap() {
                    match parse_instructions(t.as_str().unwrap()) {
                        Ok(v) => ins.extend(v),
                        Err(e) => return json!({"input_error": e}),
                    }
                }
                regs.insert(a[1].as_str().unwrap().to_string(), Program::from_instructions(ins));
            }
            "add_instructions" => {
                let mut p = get(&regs, &a[1]);
                for t in a[2].as_array().unwrap() {
                    match parse_instructions(t.as_str().unwrap()) {
                        Ok(v) => {
                            for i in v {
                                p.add_instruction(i)
                            }
                        }
                        Err(e) => return json!({"input_error": e}),
                    }
                }
                regs.insert(a[1].as_str().unwrap().to_string(), p);
            }
            "add" => {
                let r = get(&regs, &a[2]) + get(&regs, &a[3]);
                regs.insert(a[1].as_str().unwrap().to_string(), r);
            }
            "add_assign" => {
                let mut p = get(&regs, &a[1]);
                p += get(&regs, &a[2]);
                regs.insert(a[1].as_str().unwrap().to_string(), p);
            }
            "clone" => {
                let p = get(&regs, &a[2]);
                regs.insert(a[1].as_str().unwrap().to_string(), p);
            }
            "clone_without_body" => {
                let p = get(&regs, &a[2]).clone_without_body_instructions();
                regs.insert(a[1].as_str().unwrap().to_string(), p);
            }
            "rebuild" => {
                let p = Program::from_instructions(get(&regs, &a[2]).to_instructions());
                regs.insert(a[1].as_str().unwrap().to_string(), p);
            }
            "expand_calibrations" => match get(&regs, &a[2]).expand_calibrations() {
                Ok(p) => {
                    regs.insert(a[1].as_str().unwrap().to_string(), p);
                    out.push(json!("Ok"));
                }
                Err(e) => out.push(json!({"err": format!("{e:?}")})),
            },
            "simplify" => match get(&regs, &a[2]).simplify(&quil_rs::instruction::DefaultHandler) {
                Ok(p) => {
                    regs.insert(a[1].as_str().unwrap().to_string(), p);
                    out.push(json!("Ok"));
                }
                Err(e) => out.push(json!({"err": format!("{e:?}")})),
            },
            "expand_defgate_sequences" => match get(&regs, &a[2]).expand_defgate_sequences(|_| true) {
                Ok(p) => {
                    regs.insert(a[1].as_str().unwrap().to_string(), p);
                    out.push(json!("Ok"));
                }
                Err(e) => out.push(json!({"err": format!("{e:?}")})),
            },
            "wrap_in_loop" => {
                // [op, dst, src, iterations]
                let p = get(&regs, &a[2]);
                let n = a[3].as_u64().unwrap() as u32;
                let r = p.wrap_in_loop(
                    quil_rs::instruction::MemoryReference { name: "loop_ctr".to_string(), index: 0 },
                    quil_rs::instruction::Target::Fixed("loop_start".to_string()),
                    n,
                );
                regs.insert(a[1].as_str().unwrap().to_string(), r);
            }
            "filter_all" => {
                let p = get(&regs, &a[2]).filter_instructions(|_| true);
                regs.insert(a[1].as_str().unwrap().to_string(), p);
            }
            "resolve_placeholders" => {
                let mut p = get(&regs, &a[1]);
                p.resolve_placeholders();
                regs.insert(a[1].as_str().unwrap().to_string(), p);
            }
            // ---- observations
            "to_instructions" => out.push(listing(&get(&regs, &a[1]).to_instructions())),
            "into_instructions" => out.push(listing(&get(&regs, &a[1]).into_instructions())),
            "body" => out.push(Value::Array(get(&regs, &a[1]).body_instructions().map(dbg).collect())),
            "used_qubits" => {
                let p = get(&regs, &a[1]);
                out.push(Value::Array(p.get_used_qubits().iter().map(dbg).collect()))
            }
            "eq" => out.push(json!(get(&regs, &a[1]) == get(&regs, &a[2]))),
            "to_quil" => out.push(match get(&regs, &a[1]).to_quil() {
                Ok(s) => json!({"ok": s}),
                Err(e) => json!({"err": format!("{e:?}")}),
            }),
            "len" => out.push(json!(get(&regs, &a[1]).len())),
            "get_qubits" => {
                let p = get(&regs, &a[1]);
                let v: Vec<Value> = p
                    .to_instructions()
                    .iter()
                    .map(|i| Value::Array(i.get_qubits().iter().map(dbg).collect()))
                    .collect();
                out.push(Value::Array(v))
            }
            "block_schedules" => {
                // per block: {"sched": [[index, start bits, duration bits] sorted by index, total bits]} or {"sched_err": variant}
                use quil_rs::instruction::DefaultHandler;
                use quil_rs::program::analysis::ControlFlowGraph;
                let p = get(&regs, &a[1]);
                let cfg = ControlFlowGraph::from(&p);
                let mut v = vec![];
                for b in cfg.into_blocks() {
                    v.push(match b.as_schedule_seconds(&p, &DefaultHandler) {
                        Ok(s) => {
                            let mut items: Vec<(usize, u64, u64)> =
                                s.items().iter().map(|it| (it.instruction_index, it.time_span.start_time().0.to_bits(), it.time_span.duration().0.to_bits())).collect();
                            items.sort();
                            json!({"sched": [items.iter().map(|(i, s, d)| json!([i, format!("{s:016x}"), format!("{d:016x}")])).collect::<Vec<_>>(), bits(s.duration().0)]})
                        }
                        Err(e) => json!({"sched_err": format!("{e:?}").split(|c: char| !c.is_alphanumeric()).next().unwrap_or("").to_string()}),
                    });
                }
                out.push(Value::Array(v))
            }
            _ => return json!({"unknown_script_op": op}),
        }
    }
    json!({"out": out})
}

/// Build the same program `n` times in this process and report the distinct serializations.
fn determinism(req: &Value) -> Value {
    let texts: Vec<&str> = req["texts"].as_array().unwrap().iter().map(|t| t.as_str().unwrap()).collect();
    let n = req["n"].as_u64().unwrap_or(32);
    let mut seen: Vec<String> = vec![];
    let mut listings: Vec<Value> = vec![];
    for _ in 0..n {
        let mut ins = vec![];
        for t in &texts {
            match parse_instructions(t) {
                Ok(v) => ins.extend(v),
                Err(e) => return json!({"input_error": e}),
            }
        }
        let p = Program::from_instructions(ins);
        let s = p.to_quil_or_debug();
        if !seen.contains(&s) {
            seen.push(s);
            listings.push(listing(&p.to_instructions()));
        }
    }
    json!({"distinct": seen, "listings": listings})
}

/// Lex every text (verification hook) and return the tokens' Debug renderings.
fn lex(req: &Value) -> Value {
    let mut out = vec![];
    for t in req["texts"].as_array().unwrap() {
        match quil_rs::verif_hooks::lex_debug(t.as_str().unwrap()) {
            Ok(toks) => out.push(json!({"ok": toks})),
            Err(e) => out.push(json!({"err": e})),
        }
    }
    json!({"results": out})
}

/// Parse a text through one of the public `FromStr` entry points; report Ok(debug) / Err(debug).
fn parse_any(req: &Value) -> Value {
    use quil_rs::expression::Expression;
    use quil_rs::instruction::{FrameIdentifier, MemoryReference};
    let text = req["text"].as_str().unwrap();
    fn res<T: std::fmt::Debug, E: std::fmt::Debug>(r: Result<T, E>) -> Value {
        match r {
            Ok(v) => json!({"ok": format!("{v:?}")}),
            Err(e) => json!({"err": format!("{e:?}").chars().take(300).collect::<String>()}),
        }
    }
    match req["kind"].as_str().unwrap_or("program") {
        "program" => match Program::from_str(text) {
            Ok(p) => json!({"ok": listing(&p.to_instructions())}),
            Err(e) => json!({"err": format!("{e:?}").chars().take(300).collect::<String>()}),
        },
        "instruction" => res(Instruction::from_str(text)),
        "expression" => res(Expression::from_str(text)),
        "memory_reference" => res(MemoryReference::from_str(text)),
        "frame_identifier" => res(FrameIdentifier::from_str(text)),
        k => json!({"unknown_kind": k}),
    }
}

/// DefaultHandler::matching_frames for each instruction text against the program text.
fn matching_frames(req: &Value) -> Value {
    use quil_rs::instruction::{DefaultHandler, InstructionHandler};
    let program = match Program::from_str(req["program"].as_str().unwrap()) {
        Ok(p) => p,
        Err(e) => return json!({"input_error": format!("{e:?}")}),
    };
    let mut out = vec![];
    for t in req["instructions"].as_array().unwrap() {
        let ins = match parse_instructions(t.as_str().unwrap()) {
            Ok(v) if v.len() == 1 => v.into_iter().next().unwrap(),
            Ok(v) => return json!({"input_error": format!("{} instructions", v.len())}),
            Err(e) => return json!({"input_error": e}),
        };
        match DefaultHandler.matching_frames(&program, &ins) {
            None => out.push(json!({"none": true, "instruction": dbg(&ins)})),
            Some(mf) => out.push(json!({
                "instruction": dbg(&ins),
                "used": mf.used.iter().map(|f| dbg(f)).collect::<Vec<_>>(),
                "blocked": mf.blocked.iter().map(|f| dbg(f)).collect::<Vec<_>>(),
            })),
        }
    }
    json!({"frames": program.frames.get_keys().iter().map(|f| dbg(f)).collect::<Vec<_>>(),
           "used_qubits": program.get_used_qubits().iter().map(dbg).collect::<Vec<_>>(), "results": out})
}

/// DefaultHandler::memory_accesses for each instruction text, with the extern signatures of the program text.
fn memory_accesses(req: &Value) -> Value {
    use quil_rs::instruction::{DefaultHandler, ExternSignatureMap, InstructionHandler};
    let program = match Program::from_str(req["program"].as_str().unwrap()) {
        Ok(p) => p,
        Err(e) => return json!({"input_error": format!("{e:?}")}),
    };
    let map = match ExternSignatureMap::try_from(program.extern_pragma_map.clone()) {
        Ok(m) => m,
        Err(e) => return json!({"input_error": format!("{e:?}")}),
    };
    let mut out = vec![];
    for t in req["instructions"].as_array().unwrap() {
        let ins = match parse_instructions(t.as_str().unwrap()) {
            Ok(v) if v.len() == 1 => v.into_iter().next().unwrap(),
            Ok(v) => return json!({"input_error": format!("{} instructions", v.len())}),
            Err(e) => return json!({"input_error": e}),
        };
        match DefaultHandler.memory_accesses(&map, &ins) {
            Ok(a) => out.push(json!({
                "instruction": dbg(&ins),
                "reads": a.reads.iter().cloned().collect::<Vec<String>>(),
                "writes": a.writes.iter().cloned().collect::<Vec<String>>(),
                "captures": a.captures.iter().cloned().collect::<Vec<String>>(),
            })),
            Err(e) => out.push(json!({"err": format!("{e:?}"), "instruction": dbg(&ins)})),
        }
    }
    json!({"results": out})
}

/// Debug rendering of the ExternSignatureMap built from the program's PRAGMA EXTERNs.
fn extern_signature_map(req: &Value) -> Value {
    use quil_rs::instruction::ExternSignatureMap;
    let program = match Program::from_str(req["program"].as_str().unwrap()) {
        Ok(p) => p,
        Err(e) => return json!({"input_error": format!("{e:?}")}),
    };
    match ExternSignatureMap::try_from(program.extern_pragma_map.clone()) {
        Ok(m) => json!({"ok": format!("{m:?}")}),
        Err(e) => json!({"err": format!("{e:?}")}),
    }
}

/// ScheduledProgram::from_program with the default handler: per block the dependency graph's nodes and edges.
fn schedule_graph(req: &Value) -> Value {
    use quil_rs::instruction::DefaultHandler;
    use quil_rs::program::scheduling::ScheduledProgram;
    let program = match Program::from_str(req["program"].as_str().unwrap()) {
        Ok(p) => p,
        Err(e) => return json!({"input_error": format!("{e:?}")}),
    };
    let sp = match ScheduledProgram::from_program(&program, &DefaultHandler) {
        Ok(sp) => sp,
        Err(e) => return json!({"err": format!("{e:?}")}),
    };
    let mut blocks = vec![];
    for b in sp.basic_blocks() {
        let g = b.get_dependency_graph();
        let nodes: Vec<Value> = g.nodes().map(|n| dbg(&n)).collect();
        let edges: Vec<Value> = g
            .all_edges()
            .map(|(a, c, w)| json!([dbg(&a), dbg(&c), w.iter().map(dbg).collect::<Vec<_>>()]))
            .collect();
        blocks.push(json!({
            "instructions": b.instructions().iter().map(|i| dbg(i)).collect::<Vec<_>>(),
            "terminator": dbg(b.terminator()),
            "nodes": nodes,
            "edges": edges,
        }));
    }
    json!({"blocks": blocks})
}

/// DefaultHandler::role / is_scheduled for each instruction text.
fn roles(req: &Value) -> Value {
    use quil_rs::instruction::{DefaultHandler, InstructionHandler};
    let mut out = vec![];
    for t in req["instructions"].as_array().unwrap() {
        let ins = match parse_instructions(t.as_str().unwrap()) {
            Ok(v) if v.len() == 1 => v.into_iter().next().unwrap(),
            Ok(v) => return json!({"input_error": format!("{} instructions", v.len())}),
            Err(e) => return json!({"input_error": e}),
        };
        out.push(json!({"role": format!("{:?}", DefaultHandler.role(&ins)), "scheduled": DefaultHandler.is_scheduled(&ins)}));
    }
    json!({"results": out})
}

/// Calibrations::get_match_for_gate / get_match_for_measurement for each query instruction against the program's calibrations.
fn calibration_match(req: &Value) -> Value {
    let program = match Program::from_str(req["program"].as_str().unwrap()) {
        Ok(p) => p,
        Err(e) => return json!({"input_error": format!("{e:?}")}),
    };
    let listing = program.calibrations.to_instructions();
    let mut out = vec![];
    for t in req["queries"].as_array().unwrap() {
        let ins = match parse_instructions(t.as_str().unwrap()) {
            Ok(v) if v.len() == 1 => v.into_iter().next().unwrap(),
            Ok(v) => return json!({"input_error": format!("{} instructions", v.len())}),
            Err(e) => return json!({"input_error": e}),
        };
        match &ins {
            Instruction::Gate(g) => out.push(json!({"query": dbg(&ins), "match": dbg(&program.calibrations.get_match_for_gate(g))})),
            Instruction::Measurement(m) => out.push(json!({"query": dbg(&ins), "match": dbg(&program.calibrations.get_match_for_measurement(m))})),
            _ => return json!({"input_error": "query is neither gate nor measurement"}),
        }
    }
    json!({"calibrations": listing.iter().map(dbg).collect::<Vec<_>>(), "results": out})
}

/// Program::expand_calibrations and expand_calibrations_with_source_map (+ source-map queries).
fn expand_calibrations(req: &Value) -> Value {
    use quil_rs::program::InstructionIndex;
    let program = match Program::from_str(req["program"].as_str().unwrap()) {
        Ok(p) => p,
        Err(e) => return json!({"input_error": format!("{e:?}")}),
    };
    let source_body: Vec<Value> = program.body_instructions().map(dbg).collect();
    let plain = match program.expand_calibrations() {
        Ok(p) => json!({"ok": {"body": p.body_instructions().map(dbg).collect::<Vec<_>>(), "listing": listing(&p.to_instructions())}}),
        Err(e) => json!({"err": format!("{e:?}")}),
    };
    let mapped = match program.expand_calibrations_with_source_map() {
        Ok((p, sm)) => {
            let n_out = p.body_instructions().count();
            let n_src = program.body_instructions().count();
            let sources: Vec<Value> = (0..=n_out).map(|t| dbg(&sm.list_sources(&InstructionIndex(t)))).collect();
            let targets: Vec<Value> = (0..n_src).map(|s| dbg(&sm.list_targets(&InstructionIndex(s)))).collect();
            json!({"ok": {"body": p.body_instructions().map(dbg).collect::<Vec<_>>(), "listing": listing(&p.to_instructions()),
                          "source_map": dbg(&sm), "list_sources": sources, "list_targets": targets}})
        }
        Err(e) => json!({"err": format!("{e:?}")}),
    };
    json!({"source_body": source_body, "plain": plain, "mapped": mapped})
}

fn f64_of(v: &Value) -> f64 {
    // floats travel as hexadecimal bit patterns so that NaN payloads and signed zeros survive
    f64::from_bits(u64::from_str_radix(v.as_str().unwrap(), 16).unwrap())
}

fn bits(x: f64) -> Value {
    json!(format!("{:016x}", x.to_bits()))
}

/// Expression from a JSON tree: {"k": "num", "re", "im"} | {"k": "pi"} | {"k": "var", "name"} | {"k": "addr", "name", "index"}
/// | {"k": "prefix", "op", "e"} | {"k": "infix", "op", "l", "r"} | {"k": "call", "f", "e"}
fn expr_of(v: &Value) -> quil_rs::expression::Expression {
    use internment::ArcIntern;
    use quil_rs::expression::*;
    match v["k"].as_str().unwrap() {
        "num" => Expression::Number(num_complex::Complex64::new(f64_of(&v["re"]), f64_of(&v["im"]))),
        "pi" => Expression::PiConstant(),
        "var" => Expression::Variable(v["name"].as_str().unwrap().to_string()),
        "addr" => Expression::Address(quil_rs::instruction::MemoryReference { name: v["name"].as_str().unwrap().to_string(), index: v["index"].as_u64().unwrap() }),
        "prefix" => Expression::Prefix(PrefixExpression {
            operator: if v["op"] == "Minus" { PrefixOperator::Minus } else { PrefixOperator::Plus },
            expression: ArcIntern::new(expr_of(&v["e"])),
        }),
        "infix" => Expression::Infix(InfixExpression {
            left: ArcIntern::new(expr_of(&v["l"])),
            operator: match v["op"].as_str().unwrap() {
                "Caret" => InfixOperator::Caret,
                "Plus" => InfixOperator::Plus,
                "Minus" => InfixOperator::Minus,
                "Slash" => InfixOperator::Slash,
                _ => InfixOperator::Star,
            },
            right: ArcIntern::new(expr_of(&v["r"])),
        }),
        _ => Expression::FunctionCall(FunctionCallExpression {
            function: match v["f"].as_str().unwrap() {
                "Cis" => ExpressionFunction::Cis,
                "Cosine" => ExpressionFunction::Cosine,
                "Exponent" => ExpressionFunction::Exponent,
                "Sine" => ExpressionFunction::Sine,
                _ => ExpressionFunction::SquareRoot,
            },
            expression: ArcIntern::new(expr_of(&v["e"])),
        }),
    }
}

/// evaluate / substitute_variables / memory_references / simplify of a JSON-built expression.
fn expression_ops(req: &Value) -> Value {
    use num_complex::Complex64;
    use quil_rs::expression::Expression;
    let e = expr_of(&req["expr"]);
    let mut vars: HashMap<String, Complex64> = HashMap::new();
    for (k, v) in req["vars"].as_object().unwrap() {
        vars.insert(k.clone(), Complex64::new(f64_of(&v[0]), f64_of(&v[1])));
    }
    let mut mem: HashMap<String, Vec<f64>> = HashMap::new();
    for (k, v) in req["mem"].as_object().unwrap() {
        mem.insert(k.clone(), v.as_array().unwrap().iter().map(f64_of).collect());
    }
    let show = |r: Result<Complex64, quil_rs::expression::EvaluationError>| match r {
        Ok(c) => json!({"ok": [bits(c.re), bits(c.im)]}),
        Err(e) => json!({"err": format!("{e:?}")}),
    };
    let direct = show(e.evaluate(&vars, &mem));
    let as_exprs: HashMap<String, Expression> = vars.iter().map(|(k, v)| (k.clone(), Expression::Number(*v))).collect();
    let substituted = e.substitute_variables(&as_exprs);
    let empty: HashMap<String, Complex64> = HashMap::new();
    let after = show(substituted.evaluate(&empty, &mem));
    let refs: Vec<Value> = e.memory_references().map(|r| json!([r.name, r.index])).collect();
    let simplified = e.clone().into_simplified();
    json!({"expr": dbg(&e), "evaluate": direct, "substituted": dbg(&substituted), "evaluate_substituted": after, "memory_references": refs,
           "simplified": dbg(&simplified), "evaluate_simplified": show(simplified.evaluate(&vars, &mem)),
           "simplified_memory_references": simplified.memory_references().map(|r| json!([r.name, r.index])).collect::<Vec<_>>()})
}

/// BasicBlock::as_schedule_seconds (calibrations expanded first) of every block, with the default handler.
fn block_schedule(req: &Value) -> Value {
    use quil_rs::instruction::DefaultHandler;
    use quil_rs::program::analysis::ControlFlowGraph;
    let program = match Program::from_str(req["program"].as_str().unwrap()) {
        Ok(p) => p,
        Err(e) => return json!({"input_error": format!("{e:?}")}),
    };
    let mut program = program;
    if req["empty_calibration_bodies"].as_bool().unwrap_or(false) {
        // a calibration with an empty body can only be built through the API: empty every gate calibration of the parsed program
        let ins: Vec<Instruction> = program
            .to_instructions()
            .into_iter()
            .map(|i| match i {
                Instruction::CalibrationDefinition(mut c) => { c.instructions.clear(); Instruction::CalibrationDefinition(c) }
                other => other,
            })
            .collect();
        program = Program::from_instructions(ins);
    }
    let cfg = ControlFlowGraph::from(&program);
    let mut blocks = vec![];
    for b in cfg.into_blocks() {
        let body: Vec<Value> = b.instructions().iter().map(|i| dbg(*i)).collect();
        blocks.push(match b.as_schedule_seconds(&program, &DefaultHandler) {
            Ok(s) => {
                let items: Vec<Value> = s.items().iter().map(|it| json!([it.instruction_index, bits(it.time_span.start_time().0), bits(it.time_span.duration().0)])).collect();
                json!({"ok": {"items": items, "duration": bits(s.duration().0)}, "body": body})
            }
            Err(e) => json!({"err": format!("{e:?}"), "body": body}),
        });
    }
    json!({"blocks": blocks})
}

/// Call::resolve_arguments of every CALL in the body against the program's declarations and extern signatures.
fn call_resolve(req: &Value) -> Value {
    use quil_rs::instruction::ExternSignatureMap;
    let program = match Program::from_str(req["program"].as_str().unwrap()) {
        Ok(p) => p,
        Err(e) => return json!({"input_error": format!("{e:?}")}),
    };
    let sigs = match ExternSignatureMap::try_from(program.extern_pragma_map.clone()) {
        Ok(m) => m,
        Err(e) => return json!({"input_error": format!("extern signature: {e:?}")}),
    };
    let mut out = vec![];
    for i in program.body_instructions() {
        if let Instruction::Call(call) = i {
            out.push(match call.resolve_arguments(&program.memory_regions, &sigs) {
                Ok(v) => json!({"ok": format!("{v:?}"), "count": v.len()}),
                Err(e) => json!({"err": format!("{e:?}")}),
            });
        }
    }
    json!({"results": out, "signatures": format!("{sigs:?}")})
}

/// QubitGraph::gate_depth of the single block of each program, for each threshold.
fn gate_depth(req: &Value) -> Value {
    use quil_rs::program::analysis::{BasicBlock, QubitGraph};
    let program = match Program::from_str(req["program"].as_str().unwrap()) {
        Ok(p) => p,
        Err(e) => return json!({"input_error": format!("{e:?}")}),
    };
    let block: BasicBlock = match (&program).try_into() {
        Ok(b) => b,
        Err(e) => return json!({"input_error": format!("{e:?}")}),
    };
    let graph = match QubitGraph::try_from_basic_block(&block, &quil_rs::instruction::DefaultHandler) {
        Ok(g) => g,
        Err(e) => return json!({"graph_error": format!("{e:?}")}),
    };
    let depths: Vec<Value> = req["thresholds"].as_array().unwrap().iter().map(|k| json!(graph.gate_depth(k.as_u64().unwrap() as usize))).collect();
    json!({"depths": depths, "body": program.body_instructions().map(dbg).collect::<Vec<_>>()})
}

/// qubit parameter names out of `DefGateSequence { qubits: ["a", "b"], gates: [...] }` (the fields are crate-private)
fn parse_debug_qubits(s: &str) -> Option<Vec<String>> {
    let start = s.find("qubits: [")? + "qubits: [".len();
    let end = start + s[start..].find(']')?;
    Some(s[start..end].split(',').map(|x| x.trim().trim_matches('"').to_string()).filter(|x| !x.is_empty()).collect())
}

/// Both gate-sequence expansion entry points with the filter "name is in `selected`".
fn expand_defgate_sequences(req: &Value) -> Value {
    let program = match Program::from_str(req["program"].as_str().unwrap()) {
        Ok(p) => p,
        Err(e) => return json!({"input_error": format!("{e:?}")}),
    };
    let mut program = program;
    // sequence definitions named in `empty` get an empty gate list (only constructible through the API)
    if let Some(empty) = req.get("empty").and_then(|e| e.as_array()) {
        use quil_rs::instruction::{DefGateSequence, GateDefinition, GateSpecification};
        for name in empty {
            let name = name.as_str().unwrap();
            let def = match program.gate_definitions.get(name) {
                Some(d) => d.clone(),
                None => continue,
            };
            if let GateSpecification::Sequence(seq) = &def.specification {
                let qubits: Vec<String> = match parse_debug_qubits(&format!("{seq:?}")) {
                    Some(q) => q,
                    None => return json!({"input_error": "cannot read sequence qubits"}),
                };
                let seq = DefGateSequence::try_new(qubits, vec![]).unwrap();
                let d = GateDefinition::new(def.name.clone(), def.parameters.clone(), GateSpecification::Sequence(seq)).unwrap();
                program.add_instruction(Instruction::GateDefinition(d));
            }
        }
    }
    let selected: Vec<String> = req["selected"].as_array().unwrap().iter().map(|s| s.as_str().unwrap().to_string()).collect();
    let source_body: Vec<Value> = program.body_instructions().map(dbg).collect();
    let source_listing = listing(&program.to_instructions());
    let r_mapped = program.expand_defgate_sequences_with_source_map(|n| selected.iter().any(|s| s == n));
    let r_plain = program.clone().expand_defgate_sequences(|n| selected.iter().any(|s| s == n));
    let programs_equal = match (&r_mapped, &r_plain) {
        (Ok((a, _)), Ok(b)) => json!(a == b),
        _ => Value::Null,
    };
    let used = |p: &Program| Value::Array(p.get_used_qubits().iter().map(dbg).collect());
    let mapped = match &r_mapped {
        Ok((p, sm)) => json!({"ok": {"body": p.body_instructions().map(dbg).collect::<Vec<_>>(), "listing": listing(&p.to_instructions()), "source_map": dbg(sm),
                                      "used_qubits": used(p)}}),
        Err(e) => json!({"err": format!("{e:?}")}),
    };
    let plain = match &r_plain {
        Ok(p) => json!({"ok": {"body": p.body_instructions().map(dbg).collect::<Vec<_>>(), "listing": listing(&p.to_instructions()), "used_qubits": used(p)}}),
        Err(e) => json!({"err": format!("{e:?}")}),
    };
    json!({"source_body": source_body, "source_listing": source_listing, "plain": plain, "mapped": mapped, "programs_equal": programs_equal})
}

/// type_check verdict for each program text: "Ok" or the error variant name.
/// complex conjugate of every number literal of an expression (negative imaginary parts cannot be written in Quil text)
fn conj_expr(e: &quil_rs::expression::Expression) -> quil_rs::expression::Expression {
    use internment::ArcIntern;
    use quil_rs::expression::*;
    match e {
        Expression::Number(c) => Expression::Number(c.conj()),
        Expression::FunctionCall(f) => Expression::FunctionCall(FunctionCallExpression { function: f.function, expression: ArcIntern::new(conj_expr(&f.expression)) }),
        Expression::Prefix(p) => Expression::Prefix(PrefixExpression { operator: p.operator, expression: ArcIntern::new(conj_expr(&p.expression)) }),
        Expression::Infix(i) => Expression::Infix(InfixExpression { left: ArcIntern::new(conj_expr(&i.left)), operator: i.operator, right: ArcIntern::new(conj_expr(&i.right)) }),
        other => other.clone(),
    }
}

fn type_check(req: &Value) -> Value {
    let mut out = vec![];
    let conj = req["conj"].as_bool().unwrap_or(false);
    for t in req["programs"].as_array().unwrap() {
        let mut program = match Program::from_str(t.as_str().unwrap()) {
            Ok(p) => p,
            Err(e) => {
                out.push(json!({"input_error": format!("{e:?}")}));
                continue;
            }
        };
        if conj {
            // rebuild the program with the frame-update expressions conjugated (API-only values)
            let ins: Vec<Instruction> = program
                .to_instructions()
                .into_iter()
                .map(|i| match i {
                    Instruction::SetPhase(mut x) => { x.phase = conj_expr(&x.phase); Instruction::SetPhase(x) }
                    Instruction::SetFrequency(mut x) => { x.frequency = conj_expr(&x.frequency); Instruction::SetFrequency(x) }
                    Instruction::SetScale(mut x) => { x.scale = conj_expr(&x.scale); Instruction::SetScale(x) }
                    Instruction::ShiftPhase(mut x) => { x.phase = conj_expr(&x.phase); Instruction::ShiftPhase(x) }
                    Instruction::ShiftFrequency(mut x) => { x.frequency = conj_expr(&x.frequency); Instruction::ShiftFrequency(x) }
                    other => other,
                })
                .collect();
            program = Program::from_instructions(ins);
        }
        match quil_rs::program::type_check::type_check(&program) {
            Ok(()) => out.push(json!("Ok")),
            Err(e) => {
                let d = format!("{e:?}");
                out.push(json!({"err": d.split(|c: char| !c.is_alphanumeric()).next().unwrap_or("").to_string()}))
            }
        }
    }
    json!({"results": out})
}

/// Build a body with qubit / label placeholders through the public API and resolve them.
/// spec: [{"kind": "gate"|"measure"|"fence"|"label"|"jump"|"jumpwhen", "qubits": [["fixed", n] | ["ph", id]], "target": ["fixed", name] | ["ph", id, base]}]
/// custom: null for the default resolvers, else {"qubits": {id: value}, "targets": {id: name}} (only these are resolved)
fn placeholders(req: &Value) -> Value {
    use quil_rs::instruction::{
        Fence, Gate, Jump, JumpWhen, Label, Measurement, MemoryReference, Qubit, QubitPlaceholder, Target, TargetPlaceholder,
    };
    let mut qph: HashMap<u64, QubitPlaceholder> = HashMap::new();
    let mut tph: HashMap<u64, TargetPlaceholder> = HashMap::new();
    let mut program = Program::new();
    for item in req["spec"].as_array().unwrap() {
        let mut qubits = vec![];
        if let Some(qs) = item["qubits"].as_array() {
            for q in qs {
                let a = q.as_array().unwrap();
                if a[0] == "fixed" {
                    qubits.push(Qubit::Fixed(a[1].as_u64().unwrap()));
                } else {
                    let id = a[1].as_u64().unwrap();
                    qubits.push(Qubit::Placeholder(qph.entry(id).or_default().clone()));
                }
            }
        }
        let target = item["target"].as_array().map(|a| {
            if a[0] == "fixed" {
                Target::Fixed(a[1].as_str().unwrap().to_string())
            } else {
                let id = a[1].as_u64().unwrap();
                let base = a[2].as_str().unwrap().to_string();
                Target::Placeholder(tph.entry(id).or_insert_with(|| TargetPlaceholder::new(base)).clone())
            }
        });
        let ins = match item["kind"].as_str().unwrap() {
            "gate" => Instruction::Gate(Gate::new("X", vec![], qubits, vec![]).unwrap()),
            "measure" => Instruction::Measurement(Measurement { name: None, qubit: qubits[0].clone(), target: None }),
            "fence" => Instruction::Fence(Fence { qubits }),
            "label" => Instruction::Label(Label { target: target.unwrap() }),
            "jump" => Instruction::Jump(Jump { target: target.unwrap() }),
            "jumpwhen" => Instruction::JumpWhen(JumpWhen { target: target.unwrap(), condition: MemoryReference { name: "ro".to_string(), index: 0 } }),
            "jumpunless" => Instruction::JumpUnless(quil_rs::instruction::JumpUnless { target: target.unwrap(), condition: MemoryReference { name: "ro".to_string(), index: 0 } }),
            "reset" => Instruction::Reset(quil_rs::instruction::Reset { qubit: qubits.first().cloned() }),
            "rawcapture" => Instruction::RawCapture(quil_rs::instruction::RawCapture {
                blocking: true,
                frame: quil_rs::instruction::FrameIdentifier { name: "rx".to_string(), qubits },
                duration: quil_rs::expression::Expression::Number(num_complex::Complex64::new(1.0, 0.0)),
                memory_reference: MemoryReference { name: "ro".to_string(), index: 0 },
            }),
            "measure-to" => Instruction::Measurement(Measurement { name: None, qubit: qubits[0].clone(), target: Some(MemoryReference { name: "ro".to_string(), index: 0 }) }),
            "defcal" => {
                // DEFCAL X <qubits>: FENCE <body_qubits>  (placeholders allowed in both places)
                let mut body = vec![];
                for q in item["body_qubits"].as_array().map(|v| v.as_slice()).unwrap_or(&[]) {
                    let a = q.as_array().unwrap();
                    if a[0] == "fixed" {
                        body.push(Qubit::Fixed(a[1].as_u64().unwrap()));
                    } else {
                        body.push(Qubit::Placeholder(qph.entry(a[1].as_u64().unwrap()).or_default().clone()));
                    }
                }
                Instruction::CalibrationDefinition(quil_rs::instruction::CalibrationDefinition {
                    identifier: quil_rs::instruction::CalibrationIdentifier { modifiers: vec![], name: "X".to_string(), parameters: vec![], qubits },
                    instructions: vec![Instruction::Fence(Fence { qubits: body })],
                })
            }
            k => return json!({"unknown_kind": k}),
        };
        program.add_instruction(ins);
    }
    let mentioned = |p: &Program| -> Vec<Value> { p.to_instructions().iter().flat_map(|i| i.get_qubits().into_iter().map(dbg).collect::<Vec<_>>()).collect() };
    let used_before: Vec<Value> = program.get_used_qubits().iter().map(dbg).collect();
    let mentioned_before = mentioned(&program);
    let before: Vec<Value> = program.body_instructions().map(dbg).collect();
    if req["quil_only"].as_bool().unwrap_or(false) {
        // serialization of the unresolved body (C04): per instruction and for the whole program
        let show = |r: Result<String, quil_rs::quil::ToQuilError>| match r {
            Ok(s) => json!({"ok": s}),
            Err(e) => json!({"err": format!("{e:?}")}),
        };
        let dbg_ok = |q: &dyn Fn(&mut String) -> Result<(), quil_rs::quil::ToQuilError>| {
            let mut s = String::new();
            q(&mut s).is_ok()
        };
        let per: Vec<Value> = program
            .body_instructions()
            .map(|i| json!({"to_quil": show(i.to_quil()), "or_debug": i.to_quil_or_debug(), "debug_write_ok": dbg_ok(&|s| i.write(s, true))}))
            .collect();
        return json!({"before": before, "instructions": per,
                      "program": {"to_quil": show(program.to_quil()), "or_debug": program.to_quil_or_debug(), "debug_write_ok": dbg_ok(&|s| program.write(s, true))}});
    }
    if req["custom"].is_null() {
        program.resolve_placeholders();
    } else {
        let qmap: HashMap<QubitPlaceholder, u64> = req["custom"]["qubits"].as_object().unwrap().iter()
            .filter_map(|(k, v)| qph.get(&k.parse::<u64>().unwrap()).map(|p| (p.clone(), v.as_u64().unwrap()))).collect();
        let tmap: HashMap<TargetPlaceholder, String> = req["custom"]["targets"].as_object().unwrap().iter()
            .filter_map(|(k, v)| tph.get(&k.parse::<u64>().unwrap()).map(|p| (p.clone(), v.as_str().unwrap().to_string()))).collect();
        program.resolve_placeholders_with_custom_resolvers(
            Box::new(move |p| tmap.get(p).cloned()),
            Box::new(move |p| qmap.get(p).copied()),
        );
    }
    let after: Vec<Value> = program.body_instructions().map(dbg).collect();
    json!({"before": before, "after": after, "used_qubits": program.get_used_qubits().iter().map(dbg).collect::<Vec<_>>(),
           "used_before": used_before, "mentioned_before": mentioned_before, "mentioned_after": mentioned(&program)})
}

pub fn run(op: &str, req: &Value) -> Value {
    match op {
        "placeholders" => placeholders(req),
        "type_check" => type_check(req),
        "expand_calibrations" => expand_calibrations(req),
        "calibration_match" => calibration_match(req),
        "expand_defgate_sequences" => expand_defgate_sequences(req),
        "gate_depth" => gate_depth(req),
        "call_resolve" => call_resolve(req),
        "block_schedule" => block_schedule(req),
        "expression_ops" => expression_ops(req),
        "roles" => roles(req),
        "schedule_graph" => schedule_graph(req),
        "extern_signature_map" => extern_signature_map(req),
        "matching_frames" => matching_frames(req),
        "memory_accesses" => memory_accesses(req),
        "lex" => lex(req),
        "parse_any" => parse_any(req),
        "script" => script(req),
        "determinism" => determinism(req),
        _ => json!({"unknown_op": op}),
    }
}
