//! Native replay runner: executes operations of the real quil-rs crate (public API) on concrete inputs and
//! prints observables as JSON, one response line per request line.  All oracles live on the Python side.
use std::io::{BufRead, Write};
use std::panic::{catch_unwind, AssertUnwindSafe};
use std::str::FromStr;

use quil_rs::instruction::Instruction;
use quil_rs::program::analysis::ControlFlowGraph;
use quil_rs::quil::Quil;
use quil_rs::Program;
use serde_json::{json, Value};

mod ops;

fn dbg<T: std::fmt::Debug>(t: &T) -> Value {
    Value::String(format!("{:?}", t))
}

pub fn parse_program(text: &str) -> Result<Program, String> {
    Program::from_str(text).map_err(|e| format!("{e:?}"))
}

fn run(req: &Value) -> Value {
    let op = req["op"].as_str().unwrap_or("");
    match op {
        "ping" => json!({"ok": true}),
        // parse each text as a list of instructions (templates)
        "parse_instructions" => {
            let mut out = vec![];
            for t in req["texts"].as_array().unwrap() {
                let text = t.as_str().unwrap();
                match Program::from_str(text) {
                    Ok(p) => {
                        let v: Vec<Value> = p.to_instructions().iter().map(dbg).collect();
                        out.push(json!({"ok": v}))
                    }
                    Err(e) => out.push(json!({"err": format!("{e:?}")})),
                }
            }
            json!({"results": out})
        }
        "cfg" => {
            let p = match parse_program(req["text"].as_str().unwrap()) {
                Ok(p) => p,
                Err(e) => return json!({"input_error": e}),
            };
            let body: Vec<Value> = p.body_instructions().map(dbg).collect();
            let g = ControlFlowGraph::from(&p);
            let dynamic = g.has_dynamic_control_flow();
            let mut blocks = vec![];
            for b in g.into_blocks() {
                blocks.push(json!({
                    "label": dbg(&b.label()),
                    "instructions": b.instructions().iter().map(|i| dbg(i)).collect::<Vec<_>>(),
                    "offset": b.instruction_index_offset(),
                    "terminator": dbg(b.terminator()),
                    "terminator_instruction": dbg(&b.terminator().clone().into_instruction()),
                    "terminator_dynamic": b.terminator().is_dynamic(),
                }));
            }
            json!({"body": body, "blocks": blocks, "dynamic": dynamic})
        }
        _ => ops::run(op, req),
    }
}

fn main() {
    let stdin = std::io::stdin();
    let stdout = std::io::stdout();
    std::panic::set_hook(Box::new(|_| {}));
    for line in stdin.lock().lines() {
        let line = match line {
            Ok(l) => l,
            Err(_) => break,
        };
        if line.trim().is_empty() {
            continue;
        }
        let req: Value = match serde_json::from_str(&line) {
            Ok(v) => v,
            Err(e) => {
                println!("{}", json!({"bad_request": e.to_string()}));
                continue;
            }
        };
        let resp = match catch_unwind(AssertUnwindSafe(|| run(&req))) {
            Ok(v) => v,
            Err(e) => {
                let msg = if let Some(s) = e.downcast_ref::<&str>() {
                    s.to_string()
                } else if let Some(s) = e.downcast_ref::<String>() {
                    s.clone()
                } else {
                    "panic".to_string()
                };
                json!({"panic": msg})
            }
        };
        let mut o = stdout.lock();
        let _ = writeln!(o, "{}", resp);
        let _ = o.flush();
    }
}

#[allow(dead_code)]
fn _unused(_: &Instruction, p: &Program) -> String {
    p.to_quil_or_debug()
}
