#!/bin/sh
# usage: round3.sh <Cxx> [variant]  -- third-round seed /tmp/seed-Cxx/<variant> (default e): tried against the check, then confirmed independently
ID="$1"; v="${2:-e}"
[ -f /tmp/seed-$ID/$v/patch.diff ] || { echo "no patch for $ID-$v"; exit 9; }
echo "== $ID-$v: $(python3 -c "import json;print(json.load(open('/tmp/seed-$ID/$v/meta.json'))['summary'][:300])" 2>/dev/null)"
timeout 1700 /verif/tools/try_seed.sh /tmp/seed-$ID/$v/patch.diff $ID 2>&1 | grep -v KNOWN | tail -3 | cut -c1-400
