#!/usr/bin/env python3
"""Regenerates /verif/seeded/README.md: one row per kept seeded change (what it does, whether the check catches it, how)."""
import json, glob, os
HERE = os.path.dirname(os.path.dirname(os.path.abspath(__file__)))
rows = []
for d in sorted(glob.glob(os.path.join(HERE, "seeded", "*", "meta.json"))):
    m = json.load(open(d))
    cr = m.get("check_result", {})
    s = (m.get("summary") or "").replace("|", "/").replace("\n", " ")
    n = (cr.get("note") or "").replace("|", "/").replace("\n", " ")
    rows.append(f"| {os.path.basename(os.path.dirname(d))} | {s} | {'detected' if cr.get('detected') else 'MISSED'} (exit {cr.get('exit')}) | {n} |")
det = sum(1 for r in rows if "| detected" in r)
with open(os.path.join(HERE, "seeded", "README.md"), "w") as f:
    f.write("# Seeded changes\n\nEach directory holds a change produced by a fresh sub-agent that saw only the property text and its own scratch worktree "
            "(`patch.diff`, the agent's public-API demonstration `demo.rs`, `meta.json`, `verify.txt` = my independent confirmation: the existing suite passes with the change, "
            "the demo fails with it and passes without it). `tools/try_seed.sh <patch> <Cxx>` applies a change to /repo, runs the check and reverts.\n\n"
            f"{len(rows)} changes kept, {det} detected by the quick tier of the property's check at this commit.\n\n"
            "| change | what it does | quick check | how / history |\n|---|---|---|---|\n" + "\n".join(rows) + "\n")
print(len(rows), "rows,", det, "detected")
