#!/usr/bin/env python3
"""Regenerates /verif/MANIFEST.json from the registry below (the single place where claims are listed)."""
import json, os

HERE = os.path.dirname(os.path.dirname(os.path.abspath(__file__)))
ALL = [f"C{i:02d}" for i in range(1, 36)]

TECH = "bounded symbolic execution of the crate's rustc MIR (mirsym, regenerated per run) with z3 deciding every path; native replay of counterexamples"
TRUST = ("trusted base: rustc's MIR dump of the current tree, the mirsym interpreter and its library models (listed in the evidence of each run, "
         "cross-validated per run against the native crate on sampled paths), z3 4.x; bounds as stated")

# id -> (level text, note, design ref)
CLAIMED = {
    "C04": ("ONE CLAUSE ONLY: serialization fails with an unresolved-placeholder error exactly when a placeholder is present, and the debug serializer never fails. Bodies of <= N "
            "instructions (quick 2, thorough 3) built from the public structs (gates, MEASURE, FENCE, RESET q, LABEL, JUMP, JUMP-WHEN, JUMP-UNLESS) with every qubit a solver-chosen "
            "u64 or a placeholder and every target a label or a placeholder: the real Quil::to_quil / to_quil_or_debug of each instruction and of the program. The clauses about "
            "the serialized text parsing back to an equivalent program need the lexer and are NOT covered.",
            TRUST + "; round-trip clauses outside the claim; core::fmt is a library model", "5/C04, 9.1"),
    "C12": ("Every expression tree of the quick space (about 20 000 trees: depth <= 2 with at most one compound operand per operator, plus both operands compound over a small inner "
            "alphabet; literals 0, 1, 2; variables x, y; one memory cell; plus one operator with a small literal 2^-20, -(2^-20) or 1 + 2^-20 next to a non-literal operand) resp. depth <= 2 over the full alphabet (literals 0, 1, -1, 2, 0.5, pi; all five functions; both prefix "
            "operators): the real simplifier is executed on the tree and z3 decides, for ALL complex values of the variables and all real values of the memory cell on which the "
            "original has a finite value, that original and simplified form have the same value (exact arithmetic for + - * /, functions and ^ uninterpreted with the facts "
            "x^0 = 1, x^1 = x, 1^x = 1, 0^x = 0 for x != 0; Ackermann's reduction to pure nonlinear real arithmetic); no new names, no pi in the result. One known finding (0^e).",
            TRUST + "; constant folds by calculate_infix are exact rationals (stub), folds of functions / powers of literals end the path (outside the claim)", "5/C12"),
    "C25": ("One block of <= N instructions (quick 2, thorough 3) over three frames: blocking / non-blocking / padded-template pulses, captures, raw captures, delays, fences, frame "
            "updates (templates with both, one or no pad), a gate with one of seven calibrations (incl. parallel pieces and an API-built empty body) or none, MOVE; qubits solver-chosen, dyadic durations: the real BasicBlock::as_schedule_seconds against a reference "
            "(expansion, documented durations, start = latest end of an earlier conflicting instruction, a source instruction's span = hull of its expansion, duration = latest end); "
            "an uncomputable schedule must be reported.", TRUST + "; DEFWAVEFORM / SAMPLE-RATE durations outside the claim", "5/C25"),
    "C13": ("All expression trees of depth <= D (quick 2, thorough 3) with enumerated node kinds and solver-chosen operators, functions, names, 64-bit indices and double literals, and "
            "every partial assignment (variables bound or not, regions absent / empty / non-empty, arbitrary doubles): the real evaluate, substitute_variables and memory_references: "
            "evaluate(substitute(e, s)) and evaluate(e, s) give the same verdict and bit-identical values; evaluation succeeds iff everything is supplied; the reported memory "
            "references are the addresses of the tree.", TRUST + "; calculate_infix / calculate_function are uninterpreted functions (stub)", "5/C13"),
    "C16": ("All calibration sets of <= K definitions (quick 2, thorough 3) from 11 gate- and 6 measure-calibration shapes (plus a third definition restricted to two-qubit calibrations in the quick tier; fixed/variable qubits, distinct target names, literal/variable parameters, "
            "DAGGER, named measurements) with solver-chosen names, qubits and bodies, optionally followed by a redefinition of the first signature, queried by 7 gate / 4 "
            "measurement shapes: the real add_instruction / get_match_for_gate / get_match_for_measurement against a reference precedence function and replace-in-place "
            "list written from the statement.", TRUST, "5/C16"),
    "C17": ("All programs of <= 2 calibrations (4 gate headers incl. mixed fixed/variable qubits x 15 bodies incl. recursion, growing parameters, body MEASURE/RESET/DECLARE/PRAGMA EXTERN and one body with every remaining instruction kind that can carry a qubit variable: SWAP-PHASES, frame updates, both DELAY forms; 3 measure headers incl. measurement for effect x 5 bodies incl. a gate) and "
            "a body of <= N gate / measure instructions (quick 1, thorough 2): both expansion entry points against a reference expander (substitution of qubit and parameter "
            "variables everywhere, measurement target replaces the target name only, fixpoint, declarations hoisted).", TRUST, "5/C17"),
    "C18": ("Same inputs as C17: expansion must return (call depth bounded by the interpreter; a divergence is replayed natively in a child process) and report "
            "RecursiveCalibration exactly when the reference re-enters an active calibration.", TRUST, "5/C18"),
    "C19": ("Programs of <= 3 calibrations (three levels of nesting; bodies of one to three instructions incl. a call, a hoisted DECLARE before / after the call, a hoisted PRAGMA EXTERN; shape order non-decreasing in the quick tier): "
            "the returned source map is checked structurally (source order, unmodified entries identical, ranges partition the output, nested records "
            "partition their parent range, every nested call's range has the length of what the call contributed) and list_sources / list_targets are checked to be inverse at every output index and one past the end. Two listed roles of one known defect (hoisted declarations).", TRUST, "5/C19"),
    "C29": ("All blocks of <= N instructions (quick 3, thorough 4) over one-, two- and three-qubit gates with pairwise distinct solver-chosen qubits from {0,1,2,3}, MEASURE, MOVE, NOP, "
            "and every threshold (64-bit solver variable): the real QubitGraph::new / path_fold / gate_depth against a dynamic programme over the per-qubit successor relation.",
            TRUST + "; petgraph Graph modelled as node / edge lists", "5/C29"),
    "C30": ("Two regions, each undeclared or declared BIT/OCTET/INTEGER/REAL, and <= N body instructions (quick 2, thorough 3) from 28 templates (every arithmetic, comparison, "
            "logic, MOVE/EXCHANGE/LOAD/STORE, frame-update and pulse form) with solver-chosen region names: the real type_check: whole-program verdict = conjunction of the "
            "per-instruction verdicts; SET-*/SHIFT-* accepted iff the expression is real at every depth (incl. API-built literals with a negative imaginary part); a classical "
            "instruction naming an undeclared region is rejected; the verdict is invariant under reordering, duplication and consistent renaming. The individual classical typing "
            "rules (which type combinations ADD, MOVE, ... accept) are not stated by the property and not checked.", TRUST, "5/C30"),
    "C31": ("CALL resolution only: a signature of <= P parameters (quick 2, thorough 3; scalar / fixed / variable-length vector, element type, length, mutability solver-chosen) with an "
            "optional return type, a CALL of <= P+1 arguments (memory reference / identifier / immediate over regions a, b, c), regions declared or not with solver-chosen type and "
            "length: the real Call::resolve_arguments resolves iff the count matches and every argument fits its slot as the statement says. The sentence about printing and "
            "re-parsing signatures goes through the lexer and is NOT covered.", TRUST + "; signature text round trip outside the claim", "5/C31"),
    "C33": ("Bodies of <= 2 instructions with <= 2 definitions, iteration count a symbolic 32-bit value for the shape obligations (prologue, body once, decrement, JUMP-WHEN, "
            "definitions kept, source untouched) and n in {0,1,2,3,5} executed by a small interpreter of the five control instructions: the body runs exactly n times.",
            TRUST, "5/C33"),
    "C34": ("Bodies of <= N instructions (quick 2, thorough 3) over gates, MEASURE, RAW-CAPTURE, FENCE, LABEL, JUMP, JUMP-WHEN with every qubit a solver-chosen u64 or one of 3 placeholders "
            "and every target a fixed label or placeholder: the real resolve_placeholders and resolve_placeholders_with_custom_resolvers: equal placeholders get equal values, "
            "distinct ones distinct values unused by fixed qubits/labels, custom resolver values win, nothing else changes.", TRUST, "5/C34"),
    "C35": ("Programs with two frame / waveform / extern definitions (keys solver-chosen, may coincide), a declaration, a DEFGATE, a DEFCIRCUIT, at most one calibration (6 shapes incl. a fixed-qubit one and one whose body has a DECLARE), waveform and extern names overlapping, "
            "and a body of <= N instructions (quick 2, thorough 3): the real simplify::<DefaultHandler>: body equals the real expansion's, no calibrations, exactly the used "
            "frames / invoked waveforms / called externs kept, other definitions unchanged. Schedule clause: on the sub-space of bodies with known durations (gate, template pulse, "
            "FENCE, DELAY, SET-PHASE, RESET q; calibration none or FENCE) the real BasicBlock::as_schedule_seconds of the simplified and of the expanded program are equal.",
            TRUST + "; in the schedule sub-space ExternSignature::from_str and validate_user_identifier are table stubs (they go through the lexer)", "5/C35"),
    "C20": ("Programs of <= K gate definitions (quick 2, thorough 3; sequence definitions of one or two elements on one or two qubits with / without a parameter (also with the formal inside a function call), a DAGGER element, "
            "a matrix definition) whose names and element names the solver chooses from {A,B,C} (nesting, self-reference, cycles, redefinition, arity mismatch), <= N body "
            "instructions (quick 1, thorough 2) and every filter over the names: both entry points against a reference expander; errors exactly for cycles / arity / modifier / "
            "non-fixed qubit misuse; kept definitions = unselected or reachable from unselected; termination (call depth bound).", TRUST, "5/C20"),
    "C21": ("Same inputs as C20, and for programs of one definition optionally a DEFCAL whose body invokes a gate named from {A,B,C}: both entry points return the same program / the same error kind; the source map has one entry per source instruction in order, unmodified entries "
            "point at identical instructions, rewritten ranges are contiguous and equal to what the reference produced, nested maps relative to the parent range, recursively.",
            TRUST, "5/C21"),
    "C22": ("All single blocks of <= N instructions (quick 2, thorough 3) plus an optional terminator, and two-block programs (one instruction, a terminator, one instruction; every block held to the same requirements), over 18 classical / RF templates (incl. a capture that reads its own target region and MOVEs on an undeclared region) with solver-chosen operands, "
            "scheduled by the real ScheduledProgram::from_program: every edge points forward in block order; with all RF instructions matched every node is reachable "
            "from the start and reaches the end.", TRUST, "5/C22"),
    "C23": ("(a) one step of DependencyQueue::<MemoryAccessType>::record_access_and_get_dependencies from an arbitrary queue state (any pending write/capture, <= 2 pending "
            "reads, all node indices symbolic) against the sequential-consistency specification: unbounded in block length; (b) whole blocks as in C22 over 8 memory-touching "
            "templates: conflicting pairs are ordered, every memory edge joins a conflicting pair.", TRUST, "5/C23"),
    "C24": ("Whole blocks as in C22 over 14 RF templates and three frames (the quick tier adds a third instruction restricted to pulses and a two-qubit frame update): conflicting uses/blocks are ordered through StableOrdering edges, through Scheduled edges when both "
            "are timed; every frame edge joins a conflicting pair or a block boundary.", TRUST, "5/C24"),
    "C26": ("All frame sets of <= K frames (quick 2, thorough 3) on one or two qubits with solver-chosen qubits and names, and one instruction from 22 templates "
            "(pulses, captures, frame updates, SWAP-PHASES, FENCE, DELAY, RESET q) with solver-chosen operands: the real DefaultHandler::matching_frames against "
            "reference used/blocked sets written from the Quil-T rules in the statement; defined-ness and disjointness.",
            TRUST, "5/C26"),
    "C27": ("One instruction from 43 templates (every classical, control, RF and CALL form incl. nested expressions and a DEFCAL body) with solver-chosen region names: "
            "the real DefaultHandler::memory_accesses / Call::default_memory_accesses against a reference access table written from the statement.",
            TRUST + "; extern signatures are built natively once and converted", "5/C27"),
    "C01": ("All token slices of length <= L (quick 4, thorough 6) with every token variant and payload a solver variable, through the real token-level parser "
            "(parse_instructions, parse_expression, parse_memory_reference, parse_frame_identifier): no path may reach a panic, todo!, unreachable or a failed "
            "overflow/bounds assertion; a program parse with nothing left over goes on through Program::new + add_instructions, as Program::from_str does. Candidates are rendered to text, checked to lex back to the same tokens (hook) and replayed through the public from_str.",
            TRUST + "; the lexer (characters to tokens) and error Display are outside the claim", "5/C01"),
    "C05": ("Every operand position (19 templates) with the literal token's value a 64-bit vector / finite double and the sign token ranging over all operators: "
            "the parsed operand equals s*v over the integers (z3 BV2Int) or exactly in IEEE binary64, or parsing fails.",
            TRUST + "; digit strings to token values (lexical) are outside the claim", "5/C05"),
    "C06": ("Every name position (29 templates, three of them directly after a numeric literal) with the identifier chosen by the solver from an 18-name mixed-case alphabet including reserved words: the name in the "
            "parsed AST equals the token payload (reserved words in expressions and the imaginary unit i after a number excepted).",
            TRUST + "; lex_identifier_raw is outside the claim", "5/C06"),
    "C28": ("All bodies of at most N instructions (quick 4, thorough 5) over 11 instruction kinds with solver-chosen label names, qubits and indices: "
            "the real `From<&Program> for ControlFlowGraph` is executed symbolically and the block partition, labels, terminators, offsets and the "
            "dynamic flag are compared with a reference partition; z3 closes every path.",
            TRUST, "5/C28"),
    "C09": ("All instruction sequences of length <= N (quick 3, thorough 4) over 11 instruction templates in two alphabets (PRAGMA with one or with two arguments after its name; every definition kind, PRAGMA EXTERN, body "
            "instructions) with solver-chosen keys, values and qubits: the real from_instructions / to_instructions / into_instructions / PartialEq are "
            "executed symbolically; the two listings, the rebuilt program and a reference container model must agree on every path.",
            TRUST, "5/C09"),
    "C11": ("All pairs of sequences A, B of length <= N (quick 2, thorough 3) over 9 templates: the real Add / AddAssign, FrameSet::merge, "
            "Calibrations::extend, ExternPragmaMap::extend are executed symbolically; listing of A+B and A+=B against a reference merge, used-qubit union, identities.",
            TRUST, "5/C11"),
    "C08": ("All sequences of length <= N (quick 3, thorough 4) built twice and via concatenation, with the iteration order of every HashMap instance a "
            "solver-chosen permutation (all n! for n <= 3): listings of independent builds must be equal and in first-insertion order.",
            TRUST + "; HashMap order is modelled as arbitrary per instance", "5/C08"),
    "C10": ("All start sequences (<= N) followed by all histories of <= H operations (quick 2/2, thorough 3/3) from add_instruction, +=, clone, "
            "clone_without_body_instructions, rebuild, wrap_in_loop(0/1/2), expand_defgate_sequences (thorough also: expand_calibrations, simplify, resolve_placeholders on "
            "placeholder-free programs): after every step the cached used-qubit set is compared with the union of get_qubits over the listing, and equal listings must "
            "compare equal. Placeholder mode: all programs of <= 2 (thorough 3) API-built instructions (2-qubit gate, MEASURE, DEFCAL X q: FENCE q') whose qubits are solver-chosen fixed "
            "indices or one of two placeholders, the same comparison before and after resolve_placeholders. Five listed roles of known findings (cache reset by clone_without_body_instructions and the operations built on it; += keeps the union).",
            TRUST + "; placeholder programs are not combined with the other history operations", "5/C10"),
}

TEXT_TIER = ("needs printer + lexer + parser in one path: the printed text has symbolic segments and the lexer (nom string combinators over LocatedSpan<&str>, lexical number "
             "parsing) cannot be executed symbolically with the string model within reach (concrete or finite-alphabet strings); making every path concrete first would be "
             "enumeration of concrete runs, not a solver verdict, so no check is registered (DESIGN.md section 9.1)")
NA_FIXED = {
    "C02": TEXT_TIER, "C03": TEXT_TIER, "C04": TEXT_TIER, "C07": TEXT_TIER,
    "C14": "dense Complex64 linear algebra through ndarray (kron/dot on 2^n x 2^n matrices, sin/cos of symbolic reals): products of symbolic reals and a wholesale ndarray model would be needed; out of reach of the available solvers and Kani (ICE on once_cell statics)",
    "C15": "same computation as C14 (ndarray matrix products, lifting, log2) — not encodable within reach; see DESIGN.md section 6",
    "C32": "transcendental floating point sample generation (erf, exp, cos, powi) in loops over the sample count; only the length kernel is encodable and it covers one sentence of the property",
}


def main():
    checks = []
    for pid in ALL:
        if pid not in CLAIMED: continue
        text, note, ref = CLAIMED[pid]
        checks.append({
            "property_id": pid,
            "quick_cmd": f"./check {pid} --tier quick",
            "thorough_cmd": f"./check {pid} --tier thorough",
            "evidence_file": f"/verif/evidence/{pid}.json",
            "replay_cmd_template": f"./check {pid} --replay {{path}}",
            "engine": "mirsym",
            "level_claimed": {"category": "model_checking", "text": text, "design_ref": f"DESIGN.md section {ref}"},
            "level_note": note,
            "technique": TECH,
        })
    na = []
    for pid in ALL:
        if pid in CLAIMED: continue
        na.append({"property_id": pid, "reason": NA_FIXED.get(pid, "solver-based encoding planned in DESIGN.md section 5 but not completed yet: no check is registered for it at this commit")})
    man = {
        "version": 1,
        "setup_cmd": "./setup.sh",
        "hooks": {"guard": "rigetti_quil_rs_verif", "enable": "the replay runner is built with RUSTFLAGS=--cfg rigetti_quil_rs_verif (quil_rs::verif_hooks::lex_debug: observe the lexer's tokens); the MIR dump is taken without the flag",
                  "baseline_off_cmd": "cd /repo && CARGO_NET_OFFLINE=true cargo test --workspace --no-fail-fast --offline", "source_commits": ["b647e69"], "add_only": True},
        "engines": [{"name": "mirsym", "path": "/verif/mirsym", "serves_properties": sorted(CLAIMED),
                     "kind_free_text": "symbolic interpreter for rustc MIR text (Python) + z3; native replay runner in /verif/replay (Rust, links the real crate)"}],
        "checks": checks,
        "notes": "exit 0 holds within bounds / exit 1 VIOLATION (natively reproduced) / exit 2 inconclusive. Known findings: /verif/known_findings.json.",
        "not_applicable": na,
    }
    json.dump(man, open(os.path.join(HERE, "MANIFEST.json"), "w"), indent=1)
    print("claimed", len(checks), "n/a", len(na))


if __name__ == "__main__":
    main()
