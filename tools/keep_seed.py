#!/usr/bin/env python3
"""keep_seed.py <Cxx> <variant> <detected|missed> <check exit> <note>  -- copy a confirmed seeded change into /verif/seeded/<Cxx>-<variant>/"""
import json, os, shutil, sys
pid, var, det, rc, note = sys.argv[1:6]
src = f"/tmp/seed-{pid}/{var}"
dst = f"/verif/seeded/{pid}-{var}"
os.makedirs(dst, exist_ok=True)
for f in ("patch.diff", "demo.rs", "verify.txt"):
    if os.path.exists(os.path.join(src, f)): shutil.copy(os.path.join(src, f), os.path.join(dst, f))
meta = {}
if os.path.exists(os.path.join(src, "meta.json")):
    try: meta = json.load(open(os.path.join(src, "meta.json")))
    except Exception: meta = {}
ver = open(os.path.join(src, "verify.txt")).read() if os.path.exists(os.path.join(src, "verify.txt")) else ""
out = {"property": pid, "variant": var, "summary": meta.get("summary"), "needs": meta.get("needs"), "files_changed": meta.get("files_changed"),
       "independently_confirmed": {"how": "tools/verify_seed.sh in a scratch worktree: existing suite with the change, demo with and without the change", "log": ver.strip().split("\n")},
       "check_result": {"command": f"tools/try_seed.sh seeded/{pid}-{var}/patch.diff {pid}", "exit": int(rc), "detected": det == "detected", "note": note}}
json.dump(out, open(os.path.join(dst, "meta.json"), "w"), indent=1)
print("kept", dst)
