#!/bin/sh
# usage: try_seed.sh <patch.diff> <Cxx> [tier]   -- applies a seeded change to /repo, runs the check, reverts /repo
set -u
P="$1"; ID="$2"; TIER="${3:-quick}"
cd /repo || exit 9
git diff --quiet || { echo "/repo not clean"; exit 9; }
git apply "$P" || { echo "patch does not apply"; exit 9; }
cd /verif && timeout 1500 ./check "$ID" --tier "$TIER" > /tmp/try_seed_$ID.log 2>&1; RC=$?
cd /repo && git checkout -- . && git status --short | grep -v '^??' | head -3
echo "check $ID on $(basename $(dirname $P))/$(basename $P): exit $RC"
grep -E "VIOLATION|KNOWN|INCONCLUSIVE|role=|unsupported x" /tmp/try_seed_$ID.log | cut -c1-400 | head -8
