#!/bin/sh
# usage: round2.sh <Cxx>   -- second-round seeds: /tmp/seed-Cxx/{a,b} are renamed to {c,d}, tried against the check and confirmed independently
ID="$1"
cd /tmp/seed-$ID || exit 9
[ -d a ] && mv a c; [ -d b ] && mv b d
for v in c d; do
  [ -f /tmp/seed-$ID/$v/patch.diff ] || continue
  echo "== $ID-$v: $(python3 -c "import json;print(json.load(open('/tmp/seed-$ID/$v/meta.json'))['summary'][:200])" 2>/dev/null)"
  timeout 1700 /verif/tools/try_seed.sh /tmp/seed-$ID/$v/patch.diff $ID 2>&1 | grep -v KNOWN | tail -3 | cut -c1-400
  (cd /tmp && /verif/tools/verify_seed.sh $ID $v 2>&1 | grep -v "^seed" | tr '\n' ' '); echo
done
