#!/bin/sh
# usage: verify_seed.sh <Cxx> <variant>  -- independent confirmation of a seeded change in its scratch worktree /tmp/wt-<Cxx>
# checks: patch applies + compiles, existing suite passes with it, demo fails with it, demo passes without it
ID="$1"; X="$2"; WT=${WT:-/tmp/wt-$ID}; S=/tmp/seed-$ID/$X; OUT=$S/verify.txt
export CARGO_NET_OFFLINE=true CARGO_TARGET_DIR=$WT/target
cd $WT || exit 9
git checkout -q -- . ; rm -f quil-rs/tests/seed_demo.rs
git apply $S/patch.diff || { echo "apply: FAIL" > $OUT; exit 1; }
{
echo "seed $ID/$X verified $(date -u +%FT%TZ) in $WT at $(git rev-parse --short HEAD)"
cargo test --workspace --offline --no-fail-fast > $S/suite_with.log 2>&1; echo "suite_with_change: exit $? ; $(grep 'test result' $S/suite_with.log | awk '{p+=$4; f+=$6} END {print p" passed, "f" failed"}')"
cp $S/demo.rs quil-rs/tests/seed_demo.rs
cargo test --offline -p quil-rs --test seed_demo > $S/demo_with.log 2>&1; echo "demo_with_change: exit $? (expected non-zero)"
git checkout -q -- .
cargo test --offline -p quil-rs --test seed_demo > $S/demo_without.log 2>&1; echo "demo_without_change: exit $? (expected 0)"
rm -f quil-rs/tests/seed_demo.rs
} > $OUT 2>&1
cat $OUT
