"""C31 — CALL resolution follows the rules (the signature text round trip belongs to the text tier and is not covered)."""
from common import *

SCALARS = ["Bit", "Integer", "Octet", "Real"]
SCALAR_TEXT = {"Bit": "BIT", "Integer": "INTEGER", "Octet": "OCTET", "Real": "REAL"}
REGIONS = ["a", "b", "c"]            # c is never declared
PKINDS = ["scalar", "fixed", "variable"]
AKINDS = ["ref", "ident", "imm"]


def sym_scalar(m, name):
    v = m.fresh_int(name, 0, len(SCALARS))
    return Agg("ScalarType", None, None, symtag=v, alts={x: [] for x in m.td.enums["ScalarType"]}), v


def struct(td, sname, /, **kw):
    a = Agg(sname, None, [None] * len(td.structs[sname]))
    for k, v in kw.items(): a.fields[td.structs[sname].index(k)] = v
    return a


def variant(td, enum, name, *fields):
    return Agg(enum, td.enums[enum].index(name), list(fields))


def fits(decide, m, slot, arg, regions):
    """does the argument fit the slot?  slot: ("return", ty) | ("scalar", ty, mutable) | ("fixed", ty, len, mutable) | ("variable", ty, mutable)
    arg: ("ref", name) | ("ident", name) | ("imm",);  regions: {name: (ty, len)} of the declared regions.  Types / lengths / mutability may be symbolic."""
    def region(name):
        for n, r in regions.items():
            if decide(str_eq(name, n)): return r
        return None
    kind = slot[0]
    if kind == "return":
        if arg[0] == "imm": return False
        r = region(arg[1])
        return r is not None and decide(r[0] == slot[1])
    if kind == "scalar":
        if arg[0] == "imm": return not decide(slot[2])
        r = region(arg[1])
        return r is not None and decide(r[0] == slot[1])
    if arg[0] != "ident": return False
    r = region(arg[1])
    if r is None or not decide(r[0] == slot[1]): return False
    if kind == "fixed": return decide(r[1] == slot[2])
    return True


def str_eq(a, b):
    """a: python str or symbolic Str; b: python str"""
    if isinstance(a, str): return a == b
    if a.s is not None: return a.s == b
    return z3.Or([a.sym == i for i, x in enumerate(a.alpha) if x == b])


class C31(Check):
    id = "C31"
    title = "Extern signatures round-trip and CALL resolution follows the rules"
    functions = ["Call::resolve_arguments", "Call::resolve_to_signature", "convert_unresolved_to_resolved_call_arguments", "UnresolvedCallArgument::{resolve,resolve_return}"]
    assumptions = ["a signature of <= P parameters (each scalar / fixed-length vector / variable-length vector with solver-chosen element type, length and mutability) and an optional return type",
                   "a CALL to `foo` or `bar` (only foo has a signature) with <= P+1 arguments, each a memory reference / an identifier over regions {a,b,c} or an immediate",
                   "regions a, b declared or not (driver choice) with solver-chosen type and length; c undeclared"]
    outside = ["the signature text round trip (ExternSignature::from_str / write go through the lexer: text tier, not built)", "more than P parameters",
               "the contents of the resolved arguments (the statement is about whether a CALL resolves)"]
    P = {"quick": 2, "thorough": 3}
    sample_rate = 8
    max_paths = {"quick": 600000, "thorough": 8000000}

    def bounds(self, tier):
        return {"parameters": f"<= {self.P[tier]}", "arguments": f"<= {self.P[tier] + 1}", "parameter_kinds": PKINDS, "argument_kinds": AKINDS, "element_types": SCALARS,
                "lengths": "all u64", "regions": REGIONS}

    def setup(self, world, runner, tier):
        self.td = world.td

    def path(self, m):
        td = m.td
        P = self.P[m.tier]
        has_ret = m.choose([(False, None), (True, None)])
        np_ = m.choose([(j, None) for j in range(0, P + 1)])
        pk = [m.choose([(k, None) for k in PKINDS]) for _ in range(np_)]
        na = m.choose([(j, None) for j in range(0, P + 2)])
        ak = [m.choose([(k, None) for k in AKINDS]) for _ in range(na)]
        declared = [m.choose([(True, None), (False, None)]) for _ in range(2)]
        callee = m.choose([("foo", None), ("bar", None)])
        m.ctx = {"ret": has_ret, "pk": pk, "ak": ak, "declared": declared, "callee": callee}
        # --- signature
        slots, params = [], []
        ret_ty = None
        if has_ret:
            ret_ty, rv = sym_scalar(m, "ret_ty")
            slots.append(("return", rv))
        for j, k in enumerate(pk):
            ty, tv = sym_scalar(m, f"p{j}_ty")
            mut = m.fresh_bool(f"p{j}_mut")
            if k == "scalar":
                dt = variant(td, "ExternParameterType", "Scalar", ty); slots.append(("scalar", tv, mut))
            elif k == "fixed":
                ln = m.fresh_bv(f"p{j}_len", 64)
                dt = variant(td, "ExternParameterType", "FixedLengthVector", struct(td, "Vector", data_type=ty, length=ln)); slots.append(("fixed", tv, ln, mut))
            else:
                dt = variant(td, "ExternParameterType", "VariableLengthVector", ty); slots.append(("variable", tv, mut))
            params.append(struct(td, "ExternParameter", name=Str(f"x{j}"), mutable=mut, data_type=dt))
        sig = struct(td, "ExternSignature", return_type=SOME(ret_ty) if has_ret else NONE(), parameters=VecObj(params))
        sigmap = Agg("ExternSignatureMap", None, [MapObj("index", [[Str("foo"), sig]])])
        # --- regions
        regions, items = {}, []
        for i, d in enumerate(declared):
            if not d: continue
            ty, tv = sym_scalar(m, f"r{i}_ty")
            ln = m.fresh_bv(f"r{i}_len", 64)
            regions[REGIONS[i]] = (tv, ln)
            items.append([Str(REGIONS[i]), struct(td, "MemoryRegion", size=struct(td, "Vector", data_type=ty, length=ln), sharing=NONE())])
        mem = MapObj("index", items)
        # --- call
        args, aspec = [], []
        for j, k in enumerate(ak):
            if k == "imm":
                args.append(variant(td, "UnresolvedCallArgument", "Immediate", Agg("Complex", None, [2.0, 0.0]))); aspec.append(("imm",))
                continue
            name = Str(None, m.fresh_int(f"a{j}_name", 0, len(REGIONS)), REGIONS)
            if k == "ref":
                idx = m.fresh_bv(f"a{j}_idx", 64)
                args.append(variant(td, "UnresolvedCallArgument", "MemoryReference", struct(td, "MemoryReference", name=name, index=idx)))
            else:
                args.append(variant(td, "UnresolvedCallArgument", "Identifier", name))
            aspec.append((k, name))
        call = struct(td, "Call", name=Str(callee), arguments=VecObj(args))
        r = m.call_path("Call::resolve_arguments", [Ref([call], 0), Ref([mem], 0), Ref([sigmap], 0)])
        m.force_tag(r)
        ok = r.tag == 0
        want = callee == "foo" and len(aspec) == len(slots) and all(fits(m.branch_bool, m, s, a, regions) for s, a in zip(slots, aspec))
        m.require("resolves-iff-fits", f"{'ret' if has_ret else 'noret'}:{'+'.join(pk)}<-{'+'.join(ak)}", ok == want)
        if ok: m.require("one-resolved-argument-per-argument", "", len(r.fields[0].items) == len(args))
        if m.want_sample() and m._check() == z3.sat:
            zm = m.solver.model()
            mdl = m.model_dict(zm); mdl["_ctx"] = m.ctx
            c = self.case("sample", "", mdl)
            c["resolves"] = ok
            return c
        return None

    def case(self, kind, detail, model):
        ctx = model["_ctx"]
        ty = lambda k: SCALAR_TEXT[SCALARS[model.get(k, 0)]]
        lines = []
        for i, d in enumerate(ctx["declared"]):
            if d: lines.append(f"DECLARE {REGIONS[i]} {ty(f'r{i}_ty')}[{model.get(f'r{i}_len', 0)}]")
        ps = []
        for j, k in enumerate(ctx["pk"]):
            mut = "mut " if model.get(f"p{j}_mut") else ""
            suffix = "" if k == "scalar" else f"[{model.get(f'p{j}_len', 0)}]" if k == "fixed" else "[]"
            ps.append(f"x{j} : {mut}{ty(f'p{j}_ty')}{suffix}")
        sig = (ty("ret_ty") + " " if ctx["ret"] else "") + ("(" + ", ".join(ps) + ")" if ps else "")
        lines.append(f'PRAGMA EXTERN foo "{sig.strip()}"')
        args = []
        for j, k in enumerate(ctx["ak"]):
            if k == "imm": args.append("2.0"); continue
            name = REGIONS[model.get(f"a{j}_name", 0)]
            args.append(name if k == "ident" else f"{name}[{model.get(f'a{j}_idx', 0)}]")
        lines.append(("CALL " + ctx["callee"] + " " + " ".join(args)).strip())
        # the reference verdict, concretely
        slots = ([("return", model.get("ret_ty", 0))] if ctx["ret"] else []) + [
            ("scalar", model.get(f"p{j}_ty", 0), bool(model.get(f"p{j}_mut"))) if k == "scalar" else
            ("fixed", model.get(f"p{j}_ty", 0), model.get(f"p{j}_len", 0), bool(model.get(f"p{j}_mut"))) if k == "fixed" else
            ("variable", model.get(f"p{j}_ty", 0), bool(model.get(f"p{j}_mut"))) for j, k in enumerate(ctx["pk"])]
        regions = {REGIONS[i]: (model.get(f"r{i}_ty", 0), model.get(f"r{i}_len", 0)) for i, d in enumerate(ctx["declared"]) if d}
        aspec = [("imm",) if k == "imm" else (k, REGIONS[model.get(f"a{j}_name", 0)]) for j, k in enumerate(ctx["ak"])]
        want = ctx["callee"] == "foo" and len(aspec) == len(slots) and all(fits(bool, None, s, a, regions) for s, a in zip(slots, aspec))
        return {"program": "\n".join(lines), "want": want, "n_args": len(aspec), "kind": kind, "detail": detail}

    def native(self, runner, case):
        r = runner.call({"op": "call_resolve", "program": case["program"]})
        if "results" not in r or len(r["results"]) != 1: return None, r
        return r["results"][0], r

    def confirm(self, runner, case):
        obs, raw = self.native(runner, case)
        if obs is None:
            if "panic" in raw or "crash" in raw: return True, "panic", f"resolve_arguments panics on {case['program']!r}: {raw}"
            return None, "input", str(raw)[:300]          # e.g. an empty signature or a zero-length vector the parser rejects
        ok = "ok" in obs
        if ok != case["want"]:
            return True, "resolves-iff-fits:" + ("accepted" if ok else "rejected"), f"CALL {'resolves' if ok else 'is rejected'} but the rules say {'it fits' if case['want'] else 'it does not fit'}: {case['program']!r} -> {obs}"
        if ok and obs["count"] != case["n_args"]: return True, "one-resolved-argument-per-argument", f"{obs} for {case['program']!r}"
        return False, "", "native run satisfies the oracle"

    def validate(self, runner, sample):
        obs, raw = self.native(runner, sample)
        if obs is None: return None          # not expressible as text (empty signature / zero-length vector): nothing to compare
        if ("ok" in obs) != sample["resolves"]: return f"verdict differs on {sample['program']!r}: native {obs} mirsym {sample['resolves']}"
        return None

    def canary(self, runner, tier):
        case = {"program": 'DECLARE a INTEGER[2]\nPRAGMA EXTERN foo "(x0 : mut INTEGER)"\nCALL foo 2.0', "want": True, "n_args": 1}
        v = self.confirm(runner, case)
        return True if v[0] is True else f"oracle accepted an immediate for a mutable parameter: {v}"


CHECK = C31()
