"""C05 — numeric literals are parsed to their exact value or rejected (token level, every operand position)."""
from tokens import *

SENT_I, SENT_F = 7700123, 7700123.5
# (name, text with {lit}, literal kinds allowed, sign allowed, expectation)
#   expectation: how the literal must appear in the parsed instruction
#     "i64"    -> integer leaf, signed value == s*v
#     "u64"    -> integer leaf, unsigned value == v (no sign)
#     "real"   -> float leaf == s*x
#     "number" -> expression number: float leaf == (f64) v  /  == x
POSITIONS = [
    ("move", "MOVE ro[0] {lit}", "if", True, {"i": "i64", "f": "real"}),
    ("add", "ADD ro[0] {lit}", "if", True, {"i": "i64", "f": "real"}),
    ("mul", "MUL ro[0] {lit}", "if", True, {"i": "i64", "f": "real"}),
    ("eq", "EQ ro[0] ro[1] {lit}", "if", True, {"i": "i64", "f": "real"}),
    ("ge", "GE ro[0] ro[1] {lit}", "if", True, {"i": "i64", "f": "real"}),
    ("and", "AND ro[0] {lit}", "i", True, {"i": "i64"}),
    ("shl", "SHL ro[0] {lit}", "i", True, {"i": "i64"}),
    ("store", "STORE ro ro[0] {lit}", "if", True, {"i": "i64", "f": "real"}),
    ("declare", "DECLARE ro BIT[{lit}]", "i", False, {"i": "u64"}),
    ("memref", "MOVE ro[{lit}] 1", "i", False, {"i": "u64"}),
    ("qubit", "X {lit}", "i", False, {"i": "u64"}),
    ("measure", "MEASURE {lit} ro[0]", "i", False, {"i": "u64"}),
    ("gateparam", "RX({lit}) 0", "if", False, {"i": "number", "f": "number"}),
    ("delay", "DELAY 0 {lit}", "if", False, {"i": "number", "f": "number"}),
    ("setphase", 'SET-PHASE 0 "rf" {lit}', "if", False, {"i": "number", "f": "number"}),
    ("pragma", "PRAGMA foo {lit}", "i", False, {"i": "u64"}),
    ("permutation", "DEFGATE FOO AS PERMUTATION:\n\t{lit}, 1", "i", False, {"i": "u64"}),
    ("call", "CALL foo {lit}", "if", True, {"i": "number", "f": "number"}),
    ("sharing_offset", "DECLARE a BIT[1] SHARING b OFFSET {lit} BIT", "i", False, {"i": "u64"}),
]
OPS = ["Caret", "Minus", "Plus", "Slash", "Star"]


def parse_token_debug(d):
    mm = re.match(r"^([A-Za-z@-]+)(?:\((.*)\))?$", d, re.S)
    for v, e in PLAIN_DEBUG.items():
        if d == e: return (v, None)
    if d.startswith("@"): return ("Target", d[1:])
    head, arg = mm.group(1), mm.group(2)
    if head == "COMMAND": return ("Command", arg)
    if head == "DATATYPE": return ("DataType", arg)
    if head == "MODIFIER": return ("Modifier", arg)
    if head == "OPERATOR": return ("Operator", arg)
    if head == "INTEGER": return ("Integer", int(arg))
    if head == "FLOAT": return ("Float", float(arg))
    if head == "IDENTIFIER": return ("Identifier", arg)
    if head == "VARIABLE": return ("Variable", arg)
    if head == "STRING": return ("String", parse_debug(arg))
    if head == "COMMENT": return ("Comment", parse_debug(arg))
    raise ValueError("token debug " + d)


def concrete_token(td, lex, v, p):
    """mirsym TokenWithLocation for a concrete token"""
    TOK = td.enums["Token"]
    if v == "Command":
        name = next(k for k, t in lex.cmd.items() if t == p)
        f = [Agg("Command", td.enums["Command"].index(name), [])]
    elif v == "DataType":
        name = next(k for k, t in lex.dt.items() if t == p); f = [Agg("DataType", td.enums["DataType"].index(name), [])]
    elif v == "Modifier":
        name = next(k for k, t in lex.mod.items() if t == p); f = [Agg("Modifier", td.enums["Modifier"].index(name), [])]
    elif v == "Operator":
        name = next(k for k, t in lex.op.items() if t == p); f = [Agg("Operator", td.enums["Operator"].index(name), [])]
    elif v in ("Identifier", "Variable", "String", "Comment", "Target"): f = [Str(p)]
    elif v in ("Integer", "Float"): f = [p]
    else: f = []
    return Agg("TokenWithLocation", None, [Agg("Token", TOK.index(v), f), Agg("LocatedSpan", None, [0, 1, Str(""), UNIT])])


def sym_leaves(t, out):
    if isinstance(t, tuple):
        for x in t[1]: sym_leaves(x, out)
    elif isinstance(t, list):
        for x in t: sym_leaves(x, out)
    elif is_sym(t): out.append(t)
    return out


class C05(Check):
    id = "C05"
    title = "Numeric literals are parsed to their exact value or rejected"
    functions = ["parser::common::{parse_arithmetic_operand,parse_comparison_operand,parse_binary_logic_operand,apply_sign_to_integer,apply_sign_to_real,"
                 "parse_memory_reference,parse_vector,parse_qubit,parse_permutation,parse_sharing}", "parser::command::*", "parser::expression::parse_expression",
                 "parser::instruction::parse_instructions"]
    assumptions = ["the literal token's value is a solver variable: all 2^64 integers / all finite non-negative doubles; the optional sign token ranges over all five operators",
                   "token slices come from natively lexing each operand-position template (verification hook); the literal token is then replaced by the symbolic one",
                   "z3 FloatingPoint (IEEE-754 binary64, round-nearest-even) decides the real-valued obligations"]
    outside = ["digits -> token value (lexical's number parsing, radix prefixes, separators, exponent forms): lexer", "operand positions not in the template list"]
    sample_rate = 4
    solver_timeout_ms = 60000

    def bounds(self, tier):
        return {"positions": [p[0] for p in POSITIONS], "integer_literals": "all u64", "real_literals": "all finite non-negative f64", "signs": ["none"] + OPS}

    def setup(self, world, runner, tier):
        self.td = world.td
        self.lex = Lexemes(runner, world.td)
        texts = []
        for name, text, kinds, sign, exp in POSITIONS:
            for k in kinds:
                texts.append(text.format(lit=str(SENT_I) if k == "i" else repr(SENT_F)))
        res = runner.call({"op": "lex", "texts": texts})["results"]
        self.toks = {}
        i = 0
        for name, text, kinds, sign, exp in POSITIONS:
            for k in kinds:
                r = res[i]; i += 1
                if "ok" not in r: raise native.NativeError(f"template {name} does not lex: {r}")
                self.toks[(name, k)] = [parse_token_debug(d) for d in r["ok"]]

    def path(self, m):
        pi = m.choose([(i, None) for i in range(len(POSITIONS))])
        name, text, kinds, sign_ok, exp = POSITIONS[pi]
        k = m.choose([(c, None) for c in kinds])
        sign = m.choose([(s, None) for s in (("none", "op") if sign_ok else ("none",))])
        m.ctx = {"pos": pi, "kind": k, "sign": sign}
        base = self.toks[(name, k)]
        toks = []
        lit = m.fresh_bv("lit", 64) if k == "i" else m.fresh_fp("flit")
        if k == "f": m.solver.add(z3.Not(z3.fpIsNaN(lit)), z3.Not(z3.fpIsInf(lit)), z3.Not(z3.fpIsNegative(lit)))
        opv = None
        for v, p in base:
            if (v == "Integer" and p == SENT_I) or (v == "Float" and p == SENT_F):
                if sign == "op":
                    opv = m.fresh_int("op", 0, len(OPS))
                    optok = Agg("Operator", None, None, symtag=opv, alts={o: [] for o in m.td.enums["Operator"]})
                    toks.append(Agg("TokenWithLocation", None, [Agg("Token", m.td.enums["Token"].index("Operator"), [optok]), Agg("LocatedSpan", None, [0, 1, Str(""), UNIT])]))
                t = concrete_token(m.td, self.lex, v, 0)
                t.fields[0].fields[0] = lit
                toks.append(t)
            else:
                toks.append(concrete_token(m.td, self.lex, v, p))
        vec = VecObj(toks)
        r = m.call_path("parse_instructions", [Slice(vec, 0, len(toks))])
        m.force_tag(r)
        if r.tag != 0:
            m.world.count("rejected_paths")
            m.require("rejected-or-exact", name, True)
            return self.sample(m, name, k, sign, "Err")
        ins = r.fields[0].fields[1]
        tree = to_tree(m, ins)
        leaves = sym_leaves(tree, [])
        en = m.td.enums["Operator"]
        if not m.require("literal-present", f"{name}:{k}", len(leaves) >= 1): return None
        leaf = leaves[0]
        want = exp[k]
        if sign == "op":
            neg = opv == en.index("Minus")
        else:
            neg = False
        if want == "i64":
            ok = z3.is_bv(leaf) and leaf.size() == 64
            if m.require("integer-stays-integer", f"{name}", ok):
                # signed(leaf) == s * unsigned(lit) over the integers, in pure bit-vector terms:
                #   no sign / plus : leaf == lit and lit < 2^63          minus : leaf == -lit and lit <= 2^63
                top = z3.BitVecVal(1 << 63, 64)
                pos = z3.And(leaf == lit, z3.ULT(lit, top))
                ngt = z3.And(leaf == -lit, z3.ULE(lit, top))
                m.require("signed-value", f"{name}:{sign}", z3.If(neg, ngt, pos) if is_sym(neg) else pos)
        elif want == "u64":
            ok = z3.is_bv(leaf) and leaf.size() == 64
            if m.require("integer-stays-integer", f"{name}", ok):
                m.require("unsigned-value", f"{name}", leaf == lit)
        elif want == "real":
            if m.require("real-stays-real", f"{name}", z3.is_fp(leaf)):
                expect = z3.If(neg, z3.fpNeg(lit), lit) if is_sym(neg) else lit
                m.require("real-value", f"{name}:{sign}", leaf == expect)       # structural FP equality (bit-identical, -0.0 != 0.0)
        elif want == "number":
            if m.require("number-is-float", f"{name}", z3.is_fp(leaf)):
                expect = z3.fpUnsignedToFP(z3.RNE(), lit, z3.Float64()) if k == "i" else lit
                if sign == "op": expect = z3.If(neg, z3.fpNeg(expect), expect)
                m.require("number-value", f"{name}:{k}:{sign}", leaf == expect)
        return self.sample(m, name, k, sign, "Ok")

    def sample(self, m, name, k, sign, outcome):
        if m._check() != z3.sat: return None
        mdl = m.model_dict(m.solver.model())
        mdl["_ctx"] = m.ctx
        return {"position": name, "kind": k, "sign": sign, "outcome": outcome, "text": self.render_case(m.ctx, mdl)}

    def text(self, model):
        ctx = model["_ctx"] if "_ctx" in model else None
        return None

    def render_case(self, ctx, model):
        name, text, kinds, sign_ok, exp = POSITIONS[ctx["pos"]]
        if ctx["kind"] == "i": lit = str(model.get("lit", 0))
        else:
            b = model.get("flit")
            x = struct.unpack("<d", struct.pack("<Q", b[1]))[0] if isinstance(b, (tuple, list)) and b[1] is not None else 0.0
            lit = f64_text(x)
            if lit is None: return None
        s = ""
        if ctx["sign"] == "op": s = {"Caret": "^", "Minus": "-", "Plus": "+", "Slash": "/", "Star": "*"}[OPS[model.get("op", 0)]]
        return text.format(lit=s + lit)

    def case(self, kind, detail, model):
        ctx = model["_ctx"]
        t = self.render_case(ctx, model)
        if t is None: return None
        return {"text": t, "ctx": ctx, "lit": model.get("lit"), "flit": model.get("flit"), "op": OPS[model.get("op", 0)] if ctx["sign"] == "op" else None, "kind": kind, "detail": detail}

    def confirm(self, runner, case):
        r = runner.call({"op": "parse_any", "kind": "program", "text": case["text"]})
        name = POSITIONS[case["ctx"]["pos"]][0]
        if "panic" in r or "crash" in r:
            return True, f"panic:{name}", f"Program::from_str({case['text']!r}) panics: {r}"
        if "ok" not in r: return False, "", f"rejected natively: {case['text']!r}"
        # find the literal in the parsed instruction and compare with the mathematical value
        tree = [parse_debug(x) for x in r["ok"]]
        want = POSITIONS[case["ctx"]["pos"]][4][case["ctx"]["kind"]]
        neg = case["op"] == "Minus"
        if case["ctx"]["kind"] == "i":
            v = case["lit"]
            expect = -v if neg else v
            found = collect_numbers(tree, [])
            if want in ("i64", "u64"):
                if expect in [x for x in found if isinstance(x, int)]: return False, "", "value preserved natively"
                return True, f"{case['kind']}:{name}", f"{case['text']!r} parses to {r['ok']} (literal value {expect} not present)"
            if float(expect) in [x for x in found if isinstance(x, float)]: return False, "", "value preserved natively"
            return True, f"{case['kind']}:{name}", f"{case['text']!r} parses to {r['ok']}"
        x = struct.unpack("<d", struct.pack("<Q", case["flit"][1]))[0]
        expect = -x if neg else x
        found = collect_numbers(tree, [])
        if any(isinstance(y, float) and y == expect for y in found): return False, "", "value preserved natively"
        return True, f"{case['kind']}:{name}", f"{case['text']!r} parses to {r['ok']} (expected real {expect!r})"

    def validate(self, runner, sample):
        """the interpreted parser and the native one must agree on accept / reject for the sampled literal"""
        if sample.get("text") is None: return "skip"
        r = runner.call({"op": "parse_any", "kind": "program", "text": sample["text"]})
        nat_ok = "ok" in r
        if nat_ok != (sample["outcome"] == "Ok"):
            return f"accept/reject differs on {sample['text']!r}: native {'Ok' if nat_ok else r} mirsym {sample['outcome']}"
        return None

    def canary(self, runner, tier):
        ok, role, text = self.confirm(runner, {"text": "MOVE ro[0] 5", "ctx": {"pos": 0, "kind": "i", "sign": "none"}, "lit": 6, "flit": None, "op": None, "kind": "signed-value", "detail": ""})
        return True if ok else "native oracle accepted a wrong literal value"


def collect_numbers(t, out):
    if isinstance(t, tuple):
        for x in t[1]: collect_numbers(x, out)
    elif isinstance(t, list):
        for x in t: collect_numbers(x, out)
    elif isinstance(t, (int, float)) and not isinstance(t, bool): out.append(t)
    return out


CHECK = C05()
