"""C09 — all instruction views of a program agree."""
from containers import *


def oracle(req, decide, seq, obs, m=None, norm=lambda x: x):
    """seq: input instruction trees; obs = [to_instructions, into_instructions, eq(p, rebuilt), to_instructions(rebuilt)]
    norm: applied to listings whose frame order is arbitrary (native HashMap order)"""
    to_l, into_l, eq_rebuilt, re_l = obs
    to_l, into_l, re_l = norm(to_l), norm(into_l), norm(re_l)
    if req("views:length", "", len(to_l) == len(into_l)):
        for i, (x, y) in enumerate(zip(to_l, into_l)):
            if not req("views:element", f"{x[0]}-vs-{y[0]}", tree_eq(x, y, m)): break
    req("rebuild:equal", "", eq_rebuilt)
    if req("rebuild:listing-length", "", len(re_l) == len(to_l)):
        req("rebuild:listing", "", and_all(tree_eq(x, y, m) for x, y in zip(re_l, to_l)))
    ref = Ref_(decide, m)
    for t in seq: ref.add(t)
    check_listing(req, ref, to_l, "content", m)


# the same alphabet with a PRAGMA that carries a second argument after its name (the extern map keys on the first argument only)
TPLS2 = [Tpl("pragma", 'PRAGMA {pn} {e} extra "{sig}"', pn=("str", ["EXTERN", "OTHER"]), e=("str", ["fa", "fb"]), sig=("str", ["(x : INTEGER)", "(y : REAL)"])) if t.name == "pragma" else t
         for t in TPLS]

SCRIPT = [["from", "p", None], ["to_instructions", "p"], ["into_instructions", "p"], ["rebuild", "r", "p"], ["eq", "p", "r"], ["to_instructions", "r"]]


class C09(Check):
    id = "C09"
    title = "All instruction views of a program agree"
    functions = ["Program::from_instructions", "Program::add_instruction", "Program::to_instructions", "Program::into_instructions",
                 "<Program as PartialEq>::eq", "FrameSet::{insert,to_instructions,into_instructions}", "Calibrations::{insert_calibration,insert_measurement_calibration,to_instructions}",
                 "CalibrationSet::{replace,signature_position}", "ExternPragmaMap::{insert,to_instructions,into_instructions}", "Instruction::get_qubits"]
    assumptions = ["HashMap/HashSet iteration follows insertion order here (order-independence of hash containers is C08's subject)",
                   "IndexMap model: insertion-ordered association list, insert on an existing key keeps the position",
                   "instruction values come from natively parsed templates; names, qubits and definition values are solver variables"]
    outside = ["sequences longer than the bound", "instruction kinds outside the template alphabet (the body arm `other => push` is shared by all of them)"]
    N = {"quick": 3, "thorough": 4}
    sample_rate = 64

    def bounds(self, tier):
        return {"sequence_length": f"<= {self.N[tier]}", "templates": [t.name for t in TPLS], "keys": "2 names per kind, 2 values per key, qubits {0,1,2}"}

    def setup(self, world, runner, tier):
        self.td = world.td
        parse_templates(runner, world.td, TPLS)
        parse_templates(runner, world.td, [t for t in TPLS2 if t.name == "pragma"])

    def script(self, n):
        s = [list(x) for x in SCRIPT]
        s[0][2] = list(range(n))
        return s

    def path(self, m):
        n = m.choose([(k, None) for k in range(1, self.N[m.tier] + 1)])
        two = m.choose([(False, None), (True, None)])
        m.ctx = {"pragma2": two}
        ins = sym_instructions(m, n, "i", TPLS2 if two else TPLS)
        obs = run_script(m, self.script(n), ins)
        seq = [to_tree(m, x) for x in ins]
        oracle(lambda k, d, g: m.require(k, d, g), m.branch_bool, seq, obs, m)
        if m.want_sample() and m._check() == z3.sat:
            zm = m.solver.model()
            mdl = m.model_dict(zm)
            return {"n": n, "texts": texts_from_model(self.td, n, mdl, "i", TPLS2 if two else TPLS), "obs": json_tree(eval_tree(obs, zm, None))}
        return None

    def case(self, kind, detail, model):
        n = 0
        while f"i{n}_kind" in model: n += 1
        two = bool(model.get("_ctx", {}).get("pragma2"))
        return {"n": n, "texts": texts_from_model(self.td, n, model, "i", TPLS2 if two else TPLS), "kind": kind}

    def native(self, runner, case):
        obs, raw = native_script(runner, self.script(case["n"]), case["texts"])
        if obs is None: return None, None, raw
        seq_obs, raw2 = native_script(runner, [["from", "q", [i]] if False else ["new", "q"] for i in []] , case["texts"]) if False else (None, None)
        # the input trees: parse each text natively
        r = runner.call({"op": "parse_instructions", "texts": case["texts"]})
        seq = [parse_debug(x["ok"][0]) for x in r["results"]]
        return seq, obs, raw

    def confirm(self, runner, case):
        seq, obs, raw = self.native(runner, case)
        if obs is None:
            if "panic" in raw or "crash" in raw: return True, "panic", f"panics on {case['texts']}: {raw}"
            return False, "input", str(raw)[:300]
        col = Collect()
        oracle(col, bool, seq, obs, norm=normalize_frames)
        if not col.failed: return False, "", "native run satisfies the oracle"
        kind, detail = col.failed[0]
        role = kind
        if kind == "views:element":
            role = "views:extern-pragma-position" if "Pragma" in detail.split("-vs-") else "views:element:" + detail
        return True, role, f"{kind} {detail} fails for program {case['texts']}: to_instructions={raw['out'][0]} into_instructions={raw['out'][1]}"

    def validate(self, runner, sample):
        seq, obs, raw = self.native(runner, sample)
        if obs is None: return f"native run failed: {raw}"
        nat = json_tree(obs)
        a, b = [normalize_frames(x) for x in nat], [normalize_frames(x) for x in sample["obs"]]
        if a != b: return "observations differ: " + str(tree_diff(a, b))
        return None

    def canary(self, runner, tier):
        seq, obs, raw = self.native(runner, {"n": 2, "texts": ["DECLARE ro BIT[1]", "X 0"]})
        col = Collect()
        bad = [obs[0], list(reversed(obs[1])), obs[2], obs[3]]
        oracle(col, bool, seq, bad, norm=normalize_frames)
        return True if any(k.startswith("views") for k, _ in col.failed) else "oracle accepted differing views"


CHECK = C09()
