"""C16 — calibration lookup follows the documented precedence rules."""
from common import *
from c26 import fld

G2 = ["RX", "RY"]
Q = [0, 1]
GATE_CALS = [
    Tpl("c1f", "DEFCAL {g} {q}:\n\tPRAGMA {v}", v=("str", ["va", "vb"]),g=("str", G2), q=("int", Q)),
    Tpl("c1v", "DEFCAL {g} v:\n\tPRAGMA {v}", v=("str", ["va", "vb"]),g=("str", G2)),
    Tpl("c1f-plit1", "DEFCAL {g}(1.0) {q}:\n\tPRAGMA {v}", v=("str", ["va", "vb"]),g=("str", G2), q=("int", Q)),
    Tpl("c1f-plit2", "DEFCAL {g}(2.0) {q}:\n\tPRAGMA {v}", v=("str", ["va", "vb"]),g=("str", G2), q=("int", Q)),
    Tpl("c1f-pvar", "DEFCAL {g}(%t) {q}:\n\tPRAGMA {v}", v=("str", ["va", "vb"]),g=("str", G2), q=("int", Q)),
    Tpl("c1v-pvar", "DEFCAL {g}(%t) v:\n\tPRAGMA {v}", v=("str", ["va", "vb"]),g=("str", G2)),
    Tpl("c1f-dagger", "DEFCAL DAGGER {g} {q}:\n\tPRAGMA {v}", v=("str", ["va", "vb"]),g=("str", G2), q=("int", Q)),
    Tpl("c2ff", "DEFCAL {g} {q} {r}:\n\tPRAGMA {v}", v=("str", ["va", "vb"]),g=("str", G2), q=("int", Q), r=("int", Q)),
    Tpl("c2fv", "DEFCAL {g} {q} w:\n\tPRAGMA {v}", v=("str", ["va", "vb"]),g=("str", G2), q=("int", Q)),
    Tpl("c2vv", "DEFCAL {g} v w:\n\tPRAGMA {v}", v=("str", ["va", "vb"]),g=("str", G2)),
    Tpl("c2vf", "DEFCAL {g} w {q}:\n\tPRAGMA {v}", v=("str", ["va", "vb"]), g=("str", G2), q=("int", Q)),
]
GATES = [
    Tpl("g1", "{g} {q}", g=("str", G2), q=("int", Q)),
    Tpl("g1var", "{g} u", g=("str", G2)),
    Tpl("g1-p1", "{g}(1.0) {q}", g=("str", G2), q=("int", Q)),
    Tpl("g1-p2", "{g}(2.0) {q}", g=("str", G2), q=("int", Q)),
    Tpl("g1-pvar", "{g}(%s) {q}", g=("str", G2), q=("int", Q)),
    Tpl("g1-dagger", "DAGGER {g} {q}", g=("str", G2), q=("int", Q)),
    Tpl("g2", "{g} {q} {r}", g=("str", G2), q=("int", Q), r=("int", Q)),
]
MEAS_CALS = [
    Tpl("m-f-t", "DEFCAL MEASURE {q} addr:\n\tPRAGMA {v}", v=("str", ["va", "vb"]),q=("int", Q)),
    Tpl("m-v-t", "DEFCAL MEASURE v addr:\n\tPRAGMA {v}", v=("str", ["va", "vb"])),
    Tpl("m-f", "DEFCAL MEASURE {q}:\n\tPRAGMA {v}", v=("str", ["va", "vb"]),q=("int", Q)),
    Tpl("m-v", "DEFCAL MEASURE v:\n\tPRAGMA {v}", v=("str", ["va", "vb"])),
    Tpl("m-named-f-t", "DEFCAL MEASURE!mid {q} addr:\n\tPRAGMA {v}", v=("str", ["va", "vb"]),q=("int", Q)),
    # the target parameter's name is part of the signature: a second exact match that does not replace the first
    Tpl("m-f-t2", "DEFCAL MEASURE {q} dest:\n\tPRAGMA {v}", v=("str", ["va", "vb"]), q=("int", Q)),
]
MEASURES = [
    Tpl("q-t", "MEASURE {q} ro[0]", q=("int", Q)),
    Tpl("q", "MEASURE {q}", q=("int", Q)),
    Tpl("q-named-t", "MEASURE!mid {q} ro[0]", q=("int", Q)),
    Tpl("q-var-t", "MEASURE u ro[0]"),
]


def gate_reference(td, decide, cals, gate, m=None):
    """index of the calibration the gate must match (None if none); cals: CalibrationDefinition trees in stored order"""
    g = gate[1][0]
    gname, gparams, gqubits, gmods = (fld(td, g, "Gate", k) for k in ("name", "parameters", "qubits", "modifiers"))
    best, best_fixed = None, -1
    for i, c in enumerate(cals):
        ident = fld(td, c[1][0], "CalibrationDefinition", "identifier")
        mods, name, params, qubits = (fld(td, ident, "CalibrationIdentifier", k) for k in ("modifiers", "name", "parameters", "qubits"))
        if not decide(tree_eq(name, gname, m)): continue
        if not decide(tree_eq(mods, gmods, m)): continue
        if len(params) != len(gparams) or len(qubits) != len(gqubits): continue
        ok, fixed = True, 0
        for cq, gq in zip(qubits, gqubits):
            if cq[0] == "Placeholder" or gq[0] == "Placeholder": ok = False
            elif cq[0] == "Fixed":
                fixed += 1
                if not (gq[0] == "Fixed" and decide(tree_eq(cq, gq, m))): ok = False
        for cp, gp in zip(params, gparams):
            if cp[0] == "Variable": continue
            if not decide(tree_eq(cp, gp, m)): ok = False
        if ok and fixed >= best_fixed: best, best_fixed = i, fixed
    return best


def measure_reference(td, decide, cals, meas, m=None):
    ms = meas[1][0]
    name, qubit, target = (fld(td, ms, "Measurement", k) for k in ("name", "qubit", "target"))
    exact = wild = None
    for i, c in enumerate(cals):
        ident = fld(td, c[1][0], "MeasureCalibrationDefinition", "identifier")
        cname, cq, ct = (fld(td, ident, "MeasureCalibrationIdentifier", k) for k in ("name", "qubit", "target"))
        if not decide(tree_eq(cname, name, m)): continue
        if (ct[0] == "Some") != (target[0] == "Some"): continue
        if cq[0] == "Fixed":
            if decide(tree_eq(cq, qubit, m)): exact = i
        elif cq[0] == "Variable": wild = i
    return exact if exact is not None else wild


def replace_in_place(td, decide, variant, inputs, m=None):
    """the calibration set after inserting `inputs` (instruction trees) in order"""
    out = []
    for t in inputs:
        ident = fld(td, t[1][0], variant, "identifier")
        for i, e in enumerate(out):
            if decide(tree_eq(fld(td, e[1][0], variant, "identifier"), ident, m)):
                out[i] = t; break
        else:
            out.append(t)
    return out


def oracle(req, decide, td, kind, cals, query, result, m=None):
    """result: ("None", []) or ("Some", [definition tree])"""
    want = (gate_reference if kind == "gate" else measure_reference)(td, decide, cals, query, m)
    label = f"{kind}:{len(cals)}"
    if want is None:
        req("no-match-expected", label, result[0] == "None")
        return
    if not req("match-expected", label, result[0] == "Some"): return
    req("precedence", label, tree_eq(result[1][0], cals[want][1][0], m))


class C16(Check):
    id = "C16"
    title = "Calibration lookup follows the documented precedence rules"
    functions = ["Calibrations::{get_match_for_gate,get_match_for_measurement,insert_calibration,insert_measurement_calibration}", "CalibrationIdentifier::matches",
                 "MatchedCalibration::new", "CalibrationSet::replace", "Expression::into_simplified (on the literal / variable parameters of the alphabet)"]
    assumptions = ["calibration sets of <= K definitions drawn from 10 gate-calibration / 5 measure-calibration shapes with solver-chosen names and fixed qubits; queries from 7 gate / 4 measurement shapes",
                   "parameters are the literals 1.0, 2.0 or a variable"]
    outside = ["placeholders in calibrations (never match by rule)", "parameter expressions that need arithmetic simplification to compare", "more than K definitions"]
    K = {"quick": 2, "thorough": 3}
    sample_rate = 16
    max_paths = {"quick": 600000, "thorough": 8000000}

    def bounds(self, tier):
        return {"definitions": f"<= {self.K[tier]}", "gate_calibration_shapes": [t.name for t in GATE_CALS], "measure_calibration_shapes": [t.name for t in MEAS_CALS],
                "gate_queries": [t.name for t in GATES], "measure_queries": [t.name for t in MEASURES]}

    def setup(self, world, runner, tier):
        self.td = world.td
        parse_templates(runner, world.td, GATE_CALS + GATES + MEAS_CALS + MEASURES)

    def path(self, m):
        td = m.td
        kind = m.choose([("gate", None), ("measure", None)])
        cal_t, q_t = (GATE_CALS, GATES) if kind == "gate" else (MEAS_CALS, MEASURES)
        K = self.K[m.tier]
        # one more definition when all of them are two-qubit gate calibrations queried by a two-qubit gate ("the match with the most
        # fixed qubits wins" needs three candidates with different numbers of fixed qubits to tell "best so far" from "previous")
        k = m.choose([(j, None) for j in range(0, K + (2 if kind == "gate" else 1))])
        focus = k > K
        pool = [t.name for t in cal_t] if not focus else ["c2ff", "c2fv", "c2vf", "c2vv"]
        shapes = [m.choose([(x, None) for x in pool]) for _ in range(k)]
        qn = m.choose([(t.name, None) for t in q_t]) if not focus else "g2"
        # optionally the first definition is redefined (identical signature, another body) after the others
        redef = k >= 2 and not focus and m.choose([(False, None), (True, None)])
        m.ctx = {"kind": kind, "shapes": shapes, "query": qn, "redef": bool(redef)}
        by = {t.name: t for t in cal_t + q_t}
        prog = m.call_path("Program::new", [])
        cell = [prog]
        inputs, hv0 = [], None
        for j, s in enumerate(shapes):
            a, hv = instantiate(m, by[s], f"c{j}_")
            if j == 0: hv0 = hv
            inputs.append(to_tree(m, a))
            m.call_path("Program::add_instruction", [Ref(cell, 0), a])
        if redef:
            a, hv = instantiate(m, by[shapes[0]], "cr_", shared={h: v for h, v in hv0.items() if h != "v"})
            inputs.append(to_tree(m, a))
            m.call_path("Program::add_instruction", [Ref(cell, 0), a])
        query, hv = instantiate(m, by[qn], "x_")
        cals_v = cell[0].fields[td.structs["Program"].index("calibrations")]
        field = "calibrations" if kind == "gate" else "measure_calibrations"
        stored = cals_v.fields[td.structs["Calibrations"].index(field)].fields[0].items
        variant = "CalibrationDefinition" if kind == "gate" else "MeasureCalibrationDefinition"
        stored_t = [(variant, [to_tree(m, c)]) for c in stored]
        # the reference set: definitions in first-insertion order, an identical signature replaces in place
        cals = replace_in_place(td, m.branch_bool, variant, inputs, m)
        if m.require("replace-in-place", kind, len(stored_t) == len(cals)):
            m.require("replace-in-place", kind, and_all(tree_eq(x, y, m) for x, y in zip(stored_t, cals)))
        inner = Ref(query.fields if query.fields is not None else query.alts, 0) if False else Ref([query.fields[0]], 0)
        fn = "Calibrations::get_match_for_gate" if kind == "gate" else "Calibrations::get_match_for_measurement"
        r = m.call_path(fn, [Ref([cals_v], 0), inner])
        m.force_tag(r)
        res = to_tree(m, r)
        oracle(lambda kk, d, g: m.require(kk, d, g), m.branch_bool, td, kind, cals, to_tree(m, query), res, m)
        if m.want_sample() and m._check() == z3.sat:
            zm = m.solver.model()
            mdl = m.model_dict(zm); mdl["_ctx"] = m.ctx
            c = self.case("sample", "", mdl)
            c["result"] = json_tree(eval_tree(res, zm, None))
            return c
        return None

    def case(self, kind, detail, model):
        ctx = model["_ctx"]
        cal_t, q_t = (GATE_CALS, GATES) if ctx["kind"] == "gate" else (MEAS_CALS, MEASURES)
        by = {t.name: t for t in cal_t + q_t}
        defs = [by[s].render(hole_values(by[s], f"c{j}_", model)) for j, s in enumerate(ctx["shapes"])]
        if ctx.get("redef"):
            t = by[ctx["shapes"][0]]
            hv = dict(hole_values(t, "c0_", model))
            hv.update({h: v for h, v in hole_values(t, "cr_", model).items() if h == "v"})
            defs.append(t.render(hv))
        return {"kind_": ctx["kind"], "defs": defs, "program": "\n".join(defs), "query": by[ctx["query"]].render(hole_values(by[ctx["query"]], "x_", model)), "kind": kind, "detail": detail}

    def native(self, runner, case):
        r = runner.call({"op": "calibration_match", "program": case["program"], "queries": [case["query"]]})
        if "results" not in r: return None, r
        variant = "CalibrationDefinition" if case["kind_"] == "gate" else "MeasureCalibrationDefinition"
        stored = [parse_debug(x) for x in r["calibrations"] if x.startswith(variant + "(")]
        pr = runner.call({"op": "parse_instructions", "texts": case["defs"]})
        if any("ok" not in x or len(x["ok"]) != 1 for x in pr.get("results", [{}])): return None, pr
        inputs = [parse_debug(x["ok"][0]) for x in pr["results"]]
        cals = replace_in_place(self.td, bool, variant, inputs)
        x = r["results"][0]
        return (cals, parse_debug(x["query"]), parse_debug(x["match"]), stored), r

    def confirm(self, runner, case):
        obs, raw = self.native(runner, case)
        if obs is None:
            if "panic" in raw or "crash" in raw: return True, "panic", f"lookup panics: {raw} on {case}"
            return None, "input", str(raw)[:300]
        col = Collect()
        if col("replace-in-place", case["kind_"], len(obs[3]) == len(obs[0])):
            col("replace-in-place", case["kind_"], all(tree_eq(x, y) for x, y in zip(obs[3], obs[0])))
        oracle(col, bool, self.td, case["kind_"], obs[0], obs[1], obs[2])
        if not col.failed: return False, "", "native run satisfies the oracle"
        kind, detail = col.failed[0]
        return True, f"{kind}:{case['kind_']}", f"{kind} fails for query `{case['query']}` against {case['program']!r}: matched {raw['results'][0]['match']}"

    def validate(self, runner, sample):
        obs, raw = self.native(runner, sample)
        if obs is None: return f"native failed: {raw}"
        if json_tree(obs[2]) != sample["result"]: return f"match differs for {sample['query']!r} / {sample['program']!r}: native {json_tree(obs[2])} mirsym {sample['result']}"
        return None

    def canary(self, runner, tier):
        case = {"kind_": "gate", "defs": ["DEFCAL RX v:\n\tPRAGMA va", "DEFCAL RX 0:\n\tPRAGMA vb"], "program": "DEFCAL RX v:\n\tPRAGMA va\nDEFCAL RX 0:\n\tPRAGMA vb", "query": "RX 0"}
        obs, raw = self.native(runner, case)
        col = Collect()
        oracle(col, bool, self.td, "gate", obs[0], obs[1], ("Some", [obs[0][0][1][0]]))       # pretend the variable-qubit calibration won
        return True if any(k == "precedence" for k, _ in col.failed) else "oracle accepted the wrong precedence"


CHECK = C16()
