"""C25 — computed schedules are as-soon-as-possible and frame-exclusive."""
from common import *
from c26 import fld, ref_sets
from calib import ref_expand, Recursive
import struct as _struct

PRELUDE = 'DEFFRAME 0 "a":\n\tDIRECTION: "tx"\nDEFFRAME 1 "a":\n\tDIRECTION: "tx"\nDEFFRAME 0 1 "b":\n\tDIRECTION: "tx"\nDECLARE ro BIT[2]'
Q = [0, 1]
FLAT = lambda d: f"flat(duration: {d}, iq: 1.0)"
BODY = [
    Tpl("pulse-1", 'PULSE {q} "a" ' + FLAT(1.0), q=("int", Q)),
    Tpl("nbpulse-2", 'NONBLOCKING PULSE {q} "a" ' + FLAT(2.0), q=("int", Q)),
    Tpl("pulse2q-half", 'PULSE 0 1 "b" ' + FLAT(0.5)),
    Tpl("pulse-padded", 'PULSE {q} "a" erf_square(duration: 1.0, pad_left: 0.5, pad_right: 0.25, risetime: 0.1)', q=("int", Q)),
    Tpl("pulse-pad-left", 'PULSE {q} "a" erf_square(duration: 1.0, pad_left: 0.5, risetime: 0.1)', q=("int", Q)),
    Tpl("pulse-pad-right", 'PULSE {q} "a" erf_square(duration: 2.0, pad_right: 0.25, risetime: 0.1)', q=("int", Q)),
    Tpl("capture-1", 'CAPTURE {q} "a" ' + FLAT(1.0) + " ro[0]", q=("int", Q)),
    Tpl("rawcapture-2", 'RAW-CAPTURE {q} "a" 2.0 ro[0]', q=("int", Q)),
    Tpl("delay-half", "DELAY {q} 0.5", q=("int", Q)),
    Tpl("delay-named-1", 'DELAY {q} "a" 1.0', q=("int", Q)),
    Tpl("fence1", "FENCE {q}", q=("int", Q)),
    Tpl("fenceall", "FENCE"),
    Tpl("setphase", 'SET-PHASE {q} "a" 1.0', q=("int", Q)),
    Tpl("swapphases", 'SWAP-PHASES 0 "a" 1 "a"'),
    Tpl("gate", "G {q}", q=("int", Q)),
    Tpl("move", "MOVE ro[0] 1"),
]
QUICK_BODY = tuple(t.name for t in BODY)
CALS = [
    Tpl("cal-fence-pulse", 'DEFCAL G q:\n\tFENCE q\n\tPULSE q "a" ' + FLAT(0.5)),
    Tpl("cal-three", 'DEFCAL G q:\n\tPULSE q "a" ' + FLAT(1.0) + '\n\tDELAY q 0.5\n\tPULSE 0 1 "b" ' + FLAT(2.0)),
    Tpl("cal-fixed0", 'DEFCAL G 0:\n\tPULSE 0 1 "b" ' + FLAT(1.0) + '\n\tSHIFT-PHASE 0 "a" 1.0'),
    # parallel pieces that end at different times, in both orders (the hull must not depend on the order in which spans are merged)
    # the body is removed after parsing (an empty calibration body can only be built through the API): the gate expands to nothing
    Tpl("cal-empty", "DEFCAL G q:\n\tNOP"),
    Tpl("cal-parallel-long-first", 'DEFCAL G q:\n\tNONBLOCKING PULSE 0 "a" ' + FLAT(2.0) + '\n\tNONBLOCKING PULSE 1 "a" ' + FLAT(0.5)),
    Tpl("cal-parallel-short-first", 'DEFCAL G q:\n\tNONBLOCKING PULSE 0 "a" ' + FLAT(0.5) + '\n\tNONBLOCKING PULSE 1 "a" ' + FLAT(2.0) + '\n\tNONBLOCKING PULSE 0 1 "b" ' + FLAT(1.0)),
]
ZERO = ("Fence", "SetFrequency", "SetPhase", "SetScale", "ShiftFrequency", "ShiftPhase", "SwapPhases")


def number(t):
    """real value of an Expression tree that is a real number literal, else None"""
    if isinstance(t, tuple) and t[0] == "Number":
        c = t[1][0]
        if c[1][1] == 0.0: return c[1][0]
    return None


def documented_duration(td, ins):
    k, p = ins[0], (ins[1][0] if ins[1] else None)
    if k in ("Pulse", "Capture"):
        w = fld(td, p, k, "waveform")
        params = fld(td, w, "WaveformInvocation", "parameters")
        kv = {a: b for a, b in (params[1] if isinstance(params, tuple) else [])} if params and params[0] == "#map" else {}
        d = number(kv.get("duration"))
        if d is None: return None
        return d + (number(kv.get("pad_left")) or 0.0) + (number(kv.get("pad_right")) or 0.0)
    if k in ("Delay", "RawCapture"): return number(fld(td, p, k, "duration"))
    if k in ZERO: return 0.0
    return None


def reference(td, decide, frames, gcals, mcals, body, m=None):
    """None when the schedule cannot be computed, else {"spans": [(start, end) per source instruction], "duration": latest end}"""
    flat, owner = [], []
    for i, ins in enumerate(body):
        e = ref_expand(td, decide, gcals, mcals, ins, frozenset(), m)
        for x in ([ins] if e is None else e):
            flat.append(x); owner.append(i)
    durs = [documented_duration(td, x) for x in flat]
    if any(d is None for d in durs): return None
    sets = []
    for x in flat:
        r = ref_sets(td, decide, frames, x, m)
        sets.append((set(), set()) if (r is None or r == "unqualified-reset") else r)
    start, end = [], []
    for j in range(len(flat)):
        s = 0.0
        for i in range(j):
            (ui, bi), (uj, bj) = sets[i], sets[j]
            if (ui & (uj | bj)) or (uj & (ui | bi)): s = max(s, end[i])
        start.append(s); end.append(s + durs[j])
    spans = []
    for i in range(len(body)):
        mine = [j for j in range(len(flat)) if owner[j] == i]
        spans.append((min(start[j] for j in mine), max(end[j] for j in mine)) if mine else None)
    return {"spans": spans, "duration": max(end) if end else 0.0, "flat": (start, end, sets)}


def oracle(req, decide, td, frames, gcals, mcals, body, obs, m=None):
    """obs: {"err": ..} or {"items": {index: (start, duration)}, "count": n, "duration": d}"""
    try:
        ref = reference(td, decide, frames, gcals, mcals, body, m)
    except Recursive:
        return
    if ref is None:
        req("uncomputable-reported", "", "err" in obs)
        return
    if "err" in obs: return          # the statement speaks of schedules that can be computed
    timed = [i for i, sp in enumerate(ref["spans"]) if sp is not None]          # an instruction that expands to nothing has no span
    req("one-item-per-instruction", "", obs["count"] == len(timed) and sorted(obs["items"]) == timed)
    for i, sp in enumerate(ref["spans"]):
        if i not in obs["items"] or sp is None: continue
        s, d = obs["items"][i]
        kind = body[i][0]
        req("start-time", kind, s == sp[0])
        req("time-span", kind, s + d == sp[1])
    req("schedule-duration", "", obs["duration"] == ref["duration"])


class C25(Check):
    id = "C25"
    title = "Computed schedules are as-soon-as-possible and frame-exclusive"
    functions = ["BasicBlock::{as_schedule_seconds,as_schedule}", "ScheduledBasicBlock::{build,as_schedule,instruction_duration_seconds,waveform_duration_seconds}", "TimeSpan::union",
                 "<Schedule as From<Vec<ComputedScheduleItem>>>::from", "Calibrations::expand", "<DefaultHandler as InstructionHandler>::matching_frames", "Expression::to_real"]
    assumptions = ["one block of <= N instructions over three frames (0 \"a\", 1 \"a\", 0 1 \"b\"): pulses (blocking / non-blocking / padded template), captures, delays, fences, frame updates, "
                   "a gate G with one of three calibrations or none, and MOVE; qubits solver-chosen, durations are dyadic literals so every sum is exact in binary64",
                   "reference: expansion by the C17 reference expander, documented durations, start = latest end of an earlier conflicting instruction (uses a frame the other uses or blocks), "
                   "a source instruction's span = hull of the spans of what it expanded to, schedule duration = latest end",
                   "petgraph Topo / EdgeFiltered over GraphMap and BTreeMap::range are library models"]
    outside = ["DEFWAVEFORM durations via SAMPLE-RATE (itertools::all_equal_value not modelled)", "blocks longer than N", "non-dyadic durations (rounding)", "custom handlers / duration functions"]
    N = {"quick": 2, "thorough": 3}
    sample_rate = 16
    max_paths = {"quick": 600000, "thorough": 8000000}
    wall_cap = {"quick": 900, "thorough": 7200}

    def body_tpls(self, tier): return [t for t in BODY if tier != "quick" or t.name in QUICK_BODY]

    def bounds(self, tier):
        return {"block_length": f"<= {self.N[tier]}", "templates": [t.name for t in self.body_tpls(tier)], "calibrations": ["none"] + [t.name for t in CALS], "frames": ['0 "a"', '1 "a"', '0 1 "b"']}

    def setup(self, world, runner, tier):
        self.td = world.td
        parse_templates(runner, world.td, BODY + CALS)
        r = runner.call({"op": "parse_instructions", "texts": [PRELUDE]})["results"][0]
        self.prelude = [parse_debug(x) for x in r["ok"]]
        self.frames = [fld(self.td, t[1][0], "FrameDefinition", "identifier") for t in self.prelude if t[0] == "FrameDefinition"]

    def path(self, m):
        td = m.td
        cal = m.choose([(None, None)] + [(t.name, None) for t in CALS])
        n = m.choose([(k, None) for k in range(1, self.N[m.tier] + 1)])
        names = [m.choose([(t.name, None) for t in self.body_tpls(m.tier)]) for _ in range(n)]
        m.ctx = {"cal": cal, "names": names}
        by = {t.name: t for t in BODY + CALS}
        prog = m.call_path("Program::new", [])
        cell = [prog]
        for t in self.prelude:
            m.call_path("Program::add_instruction", [Ref(cell, 0), from_tree(td, t, "Instruction")])
        gcals = []
        if cal:
            a, hv = instantiate(m, by[cal], "c_")
            if cal == "cal-empty":
                cd = a.fields[0]
                cd.fields[td.structs["CalibrationDefinition"].index("instructions")] = VecObj([])
            gcals.append(to_tree(m, a))
            m.call_path("Program::add_instruction", [Ref(cell, 0), a])
        body = []
        for i, nm in enumerate(names):
            a, hv = instantiate(m, by[nm], f"i{i}_")
            body.append(to_tree(m, a))
            m.call_path("Program::add_instruction", [Ref(cell, 0), a])
        handler = Ref([Agg("DefaultHandler", None, [])], 0)
        cfg = m.call_path("<ControlFlowGraph as From<&Program>>::from", [Ref(cell, 0)])
        blocks = cfg.fields[td.structs["ControlFlowGraph"].index("blocks")].items
        if len(blocks) != 1: raise Unsupported(f"{len(blocks)} blocks")
        r = m.call_path("BasicBlock::as_schedule_seconds::<DefaultHandler>", [Ref(blocks, 0), Ref(cell, 0), handler])
        m.force_tag(r)
        obs = self.observe_tree(to_tree(m, r.fields[0])) if r.tag == 0 else {"err": to_tree(m, r.fields[0])}
        oracle(lambda k, d, g: m.require(k, d, g), m.branch_bool, td, self.frames, gcals, [], body, obs, m)
        if m.want_sample() and m._check() == z3.sat:
            zm = m.solver.model()
            mdl = m.model_dict(zm); mdl["_ctx"] = m.ctx
            c = self.case("sample", "", mdl)
            c["obs"] = {"err": True} if "err" in obs else {"items": sorted([i, s, d] for i, (s, d) in obs["items"].items()), "duration": obs["duration"]}
            return c
        return None

    def observe_tree(self, t):
        """Schedule tree -> observation"""
        td = self.td
        items = fld(td, t, "Schedule", "items")
        out = {}
        for it in items:
            ts = fld(td, it, "ComputedScheduleItem", "time_span")
            out[fld(td, it, "ComputedScheduleItem", "instruction_index")] = (fld(td, ts, "TimeSpan", "start_time")[1][0], fld(td, ts, "TimeSpan", "duration")[1][0])
        return {"items": out, "count": len(items), "duration": fld(td, t, "Schedule", "duration")[1][0]}

    def case(self, kind, detail, model):
        ctx = model["_ctx"]
        by = {t.name: t for t in BODY + CALS}
        lines = ([by[ctx["cal"]].render(hole_values(by[ctx["cal"]], "c_", model))] if ctx["cal"] else []) + \
                [by[nm].render(hole_values(by[nm], f"i{i}_", model)) for i, nm in enumerate(ctx["names"])]
        return {"program": PRELUDE + "\n" + "\n".join(lines), "cal": lines[0] if ctx["cal"] else None, "empty": ctx["cal"] == "cal-empty", "kind": kind, "detail": detail}

    def native(self, runner, case):
        r = runner.call({"op": "block_schedule", "program": case["program"], "empty_calibration_bodies": bool(case.get("empty"))})
        if "blocks" not in r or len(r["blocks"]) != 1: return None, r
        b = r["blocks"][0]
        f = lambda h: _struct.unpack("<d", _struct.pack("<Q", int(h, 16)))[0]
        if "err" in b: obs = {"err": b["err"]}
        else: obs = {"items": {i: (f(s), f(d)) for i, s, d in b["ok"]["items"]}, "count": len(b["ok"]["items"]), "duration": f(b["ok"]["duration"])}
        body = [parse_debug(t) for t in b["body"]]
        gcals = []
        if case.get("cal"):
            pr = runner.call({"op": "parse_instructions", "texts": [case["cal"]]})["results"][0]["ok"]
            gcals = [parse_debug(pr[0])]
            if case.get("empty"):
                cd = gcals[0][1][0]
                f = list(cd[1]); f[self.td.structs["CalibrationDefinition"].index("instructions")] = []
                gcals = [(gcals[0][0], [(cd[0], f)])]
        return (obs, body, gcals), r

    def confirm(self, runner, case):
        o, raw = self.native(runner, case)
        if o is None:
            if "panic" in raw or "crash" in raw: return True, "panic", f"scheduling panics on {case['program']!r}: {raw}"
            return None, "input", str(raw)[:300]
        obs, body, gcals = o
        col = Collect()
        oracle(col, bool, self.td, self.frames, gcals, [], body, obs)
        if not col.failed: return False, "", "native run satisfies the oracle"
        kind, detail = col.failed[0]
        ref = reference(self.td, bool, self.frames, gcals, [], body)
        return True, f"{kind}:{detail}", f"{kind} ({detail}) fails for {case['program'][len(PRELUDE) + 1:]!r}: schedule {obs}, expected spans {ref and ref['spans']} duration {ref and ref['duration']}"

    def validate(self, runner, sample):
        o, raw = self.native(runner, sample)
        if o is None: return f"native failed: {raw}"
        obs = o[0]
        nat = {"err": True} if "err" in obs else {"items": sorted([i, s, d] for i, (s, d) in obs["items"].items()), "duration": obs["duration"]}
        if json.loads(json.dumps(nat)) != json.loads(json.dumps(sample["obs"])): return f"schedules differ on {sample['program'][len(PRELUDE) + 1:]!r}: native {nat} mirsym {sample['obs']}"
        return None

    def canary(self, runner, tier):
        case = {"program": PRELUDE + '\nPULSE 0 "a" ' + FLAT(1.0) + '\nPULSE 0 "a" ' + FLAT(2.0), "cal": None}
        o, raw = self.native(runner, case)
        if o is None: return f"canary input failed: {raw}"
        obs, body, gcals = o
        obs["items"][1] = (0.0, 2.0)          # pretend the second pulse overlaps the first
        col = Collect()
        oracle(col, bool, self.td, self.frames, gcals, [], body, obs)
        return True if any(k == "start-time" for k, _ in col.failed) else "oracle accepted overlapping pulses on one frame"


CHECK = C25()
