"""Shared driver machinery: instruction templates parsed by the native crate, symbolic holes, concrete requirers."""
import json, os, re, sys
import z3

sys.path.insert(0, os.path.join(os.path.dirname(os.path.abspath(__file__)), "..", "mirsym"))
from values import *
import native
from native import to_tree, tree_eq, parse_debug, from_tree, eval_tree, tree_diff
from lib_core import and_all, or_any, neg, val_eq
from explore import Check

INT_HOLE_BASE = 7700000


class Tpl:
    """An instruction template: Quil text with `{hole}` fields.

    holes: name -> ("str", alphabet) | ("int", [allowed values]) | ("u64",) for an unconstrained 64-bit integer
    The text is parsed by the *native* crate (setup), its Debug output becomes the mirsym value; holes are then
    replaced by solver variables."""

    def __init__(self, name, text, **holes):
        self.name, self.text, self.holes = name, text, holes
        self.order = list(holes)
        self.tree = None

    def default_values(self):
        out = {}
        for i, h in enumerate(self.order):
            kind = self.holes[h][0]
            out[h] = f"hOLe{i}x" if kind == "str" else INT_HOLE_BASE + i
        return out

    def default_text(self):
        return self.text.format(**self.default_values())

    def render(self, values):
        return self.text.format(**values)


def parse_templates(runner, td, tpls):
    """native-parse the default instance of every template; stores the Debug tree (one instruction per template)"""
    res = runner.call({"op": "parse_instructions", "texts": [t.default_text() for t in tpls]})
    if "results" not in res: raise native.NativeError(f"parse_instructions failed: {res}")
    for t, r in zip(tpls, res["results"]):
        if "ok" not in r: raise native.NativeError(f"template {t.name!r} does not parse natively: {r}")
        if len(r["ok"]) != 1: raise native.NativeError(f"template {t.name!r} yields {len(r['ok'])} instructions")
        t.tree = parse_debug(r["ok"][0])
    return tpls


def subst_holes(v, smap, imap):
    """replace hole sentinels inside a freshly built value (in place for containers); returns the value"""
    if isinstance(v, Str):
        return smap.get(v.s, v)
    if isinstance(v, int) and not isinstance(v, bool):
        return imap.get(v, v)
    if isinstance(v, Agg):
        if v.fields is not None:
            v.fields = [subst_holes(x, smap, imap) for x in v.fields]
        return v
    if isinstance(v, VecObj):
        v.items = [subst_holes(x, smap, imap) for x in v.items]
        return v
    if isinstance(v, BoxObj):
        v.fields[0] = subst_holes(v.fields[0], smap, imap)
        return v
    if isinstance(v, MapObj):
        v.items = [[subst_holes(k, smap, imap), subst_holes(x, smap, imap)] for k, x in v.items]
        return v
    return v


def instantiate(m, tpl, prefix, shared=None):
    """mirsym Instruction value of the template with fresh symbolic holes.
    returns (Agg, {hole: value})   value: Str (symbolic) or z3 BitVec"""
    v = from_tree(m.td, tpl.tree, "Instruction")
    smap, imap, hv = {}, {}, {}
    dv = tpl.default_values()
    for h in tpl.order:
        spec = tpl.holes[h]
        if shared and h in shared:
            val = shared[h]
        elif spec[0] == "str":
            alpha = spec[1]
            if len(alpha) == 1: val = Str(alpha[0])
            else: val = Str(None, m.fresh_int(f"{prefix}{h}", 0, len(alpha)), alpha)
        elif spec[0] == "int":
            vals = spec[1]
            if len(vals) == 1: val = vals[0]
            else:
                val = m.fresh_bv(f"{prefix}{h}", 64)
                m.solver.add(z3.Or([val == x for x in vals]))
        elif spec[0] == "u64":
            val = m.fresh_bv(f"{prefix}{h}", 64)
        else: raise ValueError(spec)
        hv[h] = val
        if spec[0] == "str": smap[dv[h]] = val
        else: imap[dv[h]] = val
    return subst_holes(v, smap, imap), hv


def hole_values(tpl, prefix, model):
    """concrete hole values of a template instance under a model dict"""
    out = {}
    for h in tpl.order:
        spec = tpl.holes[h]
        key = f"{prefix}{h}"
        if spec[0] == "str":
            out[h] = spec[1][model.get(key, 0)] if len(spec[1]) > 1 else spec[1][0]
        elif spec[0] == "int":
            out[h] = model.get(key, spec[1][0]) if len(spec[1]) > 1 else spec[1][0]
        else:
            out[h] = model.get(key, 0)
    return out


def sym_instruction(m, tpls, prefix):
    """an instruction whose *kind* is a solver variable over the given templates (one template per Instruction variant).
    returns (Agg, kindvar, {variant: holevals})"""
    en = m.td.enums["Instruction"]
    kv = m.fresh_int(f"{prefix}kind", 0, len(en))
    by_variant, holes = {}, {}
    for t in tpls:
        variant = t.tree[0]
        if variant in by_variant: raise ValueError(f"two templates for variant {variant}")
        by_variant[variant] = t

    def factory(variant):
        t = by_variant[variant]
        a, hv = instantiate(m, t, f"{prefix}{t.name}_")
        holes[variant] = hv
        return a.fields
    names = list(by_variant)
    if len(names) < len(en):
        m.solver.add(m.zcached(("kinds", prefix, tuple(names)), lambda: z3.Or([kv == en.index(n) for n in names])))
    return Agg("Instruction", None, None, symtag=kv, alts=LazyAlts(names, factory)), kv, holes


def concrete_kind(td, tpls, prefix, model):
    en = td.enums["Instruction"]
    k = model.get(f"{prefix}kind")
    for t in tpls:
        if en.index(t.tree[0]) == k: return t
    return tpls[0]


class Collect:
    """concrete requirer used for native confirmation: collects failed obligations"""

    def __init__(self): self.failed = []

    def __call__(self, kind, detail, good):
        if is_sym(good):
            good = z3.simplify(good)
            good = True if z3.is_true(good) else False if z3.is_false(good) else good
        if good is not True: self.failed.append((kind, detail))
        return good is True


def json_tree(t):
    return json.loads(json.dumps(t, default=str))
