"""C35 — dead-code removal keeps execution and removes exactly unused definitions."""
from common import *
from progscript import run_script, native_script
from c26 import fld, ref_sets
import struct as _struct

# the waveform and the extern alphabets share the name `wa`: the two name spaces must be pruned independently
QS, FN, WN, EN, GN = [0, 1], ["a", "b"], ["wa", "wb"], ["ea", "wa"], ["RX", "RY"]
FLAT = "flat(duration: 1.0, iq: 1.0)"
DEFS = [
    Tpl("fr", 'DEFFRAME {q} "{f}":\n\tDIRECTION: "tx"', q=("int", QS), f=("str", FN)),
    Tpl("fr", 'DEFFRAME {q} "{f}":\n\tDIRECTION: "rx"', q=("int", QS), f=("str", FN)),
    Tpl("wf", "DEFWAVEFORM {w}:\n\t1.0, 1.0", w=("str", WN)),
    Tpl("wf", "DEFWAVEFORM {w}(%a):\n\t%a, 2.0", w=("str", WN)),
    Tpl("ex", 'PRAGMA EXTERN {e} "(x : INTEGER)"', e=("str", EN)),
    Tpl("ex", 'PRAGMA EXTERN {e} "(x : mut INTEGER)"', e=("str", EN)),
    Tpl("decl", "DECLARE ro INTEGER[2]"),
    Tpl("gate", "DEFGATE G AS MATRIX:\n\t1.0, 0.0\n\t0.0, 1.0"),
    Tpl("circ", "DEFCIRCUIT C q:\n\tX q"),
]
for _i, _t in enumerate(DEFS): _t.name = f"{_t.name}{_i}"
CALS = [
    Tpl("cal-pulse", 'DEFCAL {g} v:\n\tPULSE v "{f}" {w}', g=("str", GN), f=("str", FN), w=("str", WN)),
    Tpl("cal-call", "DEFCAL {g} v:\n\tCALL {e} ro[0]", g=("str", GN), e=("str", EN)),
    Tpl("cal-fence", "DEFCAL {g} v:\n\tFENCE v", g=("str", GN)),
    Tpl("cal-fixed", 'DEFCAL {g} {r}:\n\tPULSE {r} "{f}" {w}', g=("str", GN), r=("int", QS), f=("str", FN), w=("str", WN)),
    Tpl("cal-measure", 'DEFCAL MEASURE v addr:\n\tCAPTURE v "{f}" {w} addr[0]', f=("str", FN), w=("str", WN)),
    Tpl("cal-declare", "DEFCAL {g} v:\n\tDECLARE tmp REAL[1]\n\tFENCE v", g=("str", GN)),
]
BODY = [
    Tpl("gate1", "{g} {q}", g=("str", GN), q=("int", QS)),
    Tpl("pulse-named", 'PULSE {q} "{f}" {w}', q=("int", QS), f=("str", FN), w=("str", WN)),
    Tpl("pulse-args", 'PULSE {q} "{f}" {w}(a: 1.0)', q=("int", QS), f=("str", FN), w=("str", WN)),
    Tpl("reset0", "RESET"),
    Tpl("pulse-flat", 'PULSE {q} "{f}" ' + FLAT, q=("int", QS), f=("str", FN)),
    Tpl("capture-named", 'NONBLOCKING CAPTURE {q} "{f}" {w} ro[0]', q=("int", QS), f=("str", FN), w=("str", WN)),
    Tpl("call", "CALL {e} ro[0]", e=("str", EN)),
    Tpl("fence1", "FENCE {q}", q=("int", QS)),
    Tpl("delay1", "DELAY {q} 1.0", q=("int", QS)),
    Tpl("setphase", 'SET-PHASE {q} "{f}" 1.0', q=("int", QS), f=("str", FN)),
    Tpl("measure", "MEASURE {q} ro[1]", q=("int", QS)),
    Tpl("reset1", "RESET {q}", q=("int", QS)),
]
QUICK_BODY = ("gate1", "pulse-named", "pulse-flat", "pulse-args", "reset0", "capture-named", "call", "fence1", "delay1", "measure")
SCHED_BODY = ("gate1", "pulse-flat", "fence1", "delay1", "setphase", "reset1")
DEF_KINDS = ("FrameDefinition", "WaveformDefinition", "Pragma", "Declaration", "GateDefinition", "CircuitDefinition", "CalibrationDefinition", "MeasureCalibrationDefinition")


def split(listing, n_body):
    """{kind: [trees]} of the definitions of a to_instructions listing (the body is its last n_body entries; the bodies used here contain no PRAGMA)"""
    out = {k: [] for k in DEF_KINDS}
    defs = listing[:len(listing) - n_body] if n_body else listing
    for t in defs:
        out.setdefault(t[0], []).append(t)
    return out


def body_qubits(td, ins):
    """qubit operands of a body instruction of the alphabet"""
    k, p = ins[0], (ins[1][0] if ins[1] else None)
    if k in ("Gate", "Fence", "Delay"): return list(fld(td, p, k, "qubits"))
    if k == "Measurement": return [fld(td, p, k, "qubit")]
    # "the qubits a program uses" is the library's used-qubit set (Instruction::get_qubits: C10): frame updates do not count
    if k in ("Pulse", "Capture", "RawCapture"):
        return list(fld(td, fld(td, p, k, "frame"), "FrameIdentifier", "qubits"))
    if k == "Reset":
        q = fld(td, p, k, "qubit")
        return [q[1][0]] if q[0] == "Some" else []
    return []


def oracle(req, decide, td, obs, m=None):
    """obs = [expand status, simplify status, listing(p), listing(expanded), body(expanded), listing(simplified), body(simplified)]"""
    st_e, st_s, l_p, l_e, b_e, l_s, b_s = obs[:7]
    if not req("status-agrees-with-expansion", "", (st_e == "Ok") == (st_s == "Ok")): return
    if st_e != "Ok": return
    if req("body:length", "", len(b_s) == len(b_e)):
        for x, y in zip(b_s, b_e):
            if not req("body:instruction", y[0], tree_eq(x, y, m)): break
    src = split(l_p, len(l_p) - sum(1 for t in l_p if t[0] in DEF_KINDS))
    # declarations, gate definitions and circuits: those of the calibration-expanded program (a DECLARE in a calibration body is
    # hoisted into the declarations by the expansion)
    exp_defs = split(l_e, len(b_e))
    for kind in ("Declaration", "GateDefinition", "CircuitDefinition"): src[kind] = exp_defs[kind]
    got = split(l_s, len(b_s))
    req("no-calibrations", "", not got["CalibrationDefinition"] and not got["MeasureCalibrationDefinition"])
    for kind in ("Declaration", "GateDefinition", "CircuitDefinition"):
        if req("unchanged:" + kind, "count", len(got[kind]) == len(src[kind])):
            req("unchanged:" + kind, "value", and_all(tree_eq(x, y, m) for x, y in zip(got[kind], src[kind])))

    def keep_exactly(kind, used_of):
        want = [d for d in src[kind] if used_of(d)]
        if not req("kept:" + kind, "count", len(got[kind]) == len(want)): return
        for d in want:
            req("kept:" + kind, "member", or_any(tree_eq(d, g, m) for g in got[kind]))

    def frame_used(d):
        ident = fld(td, d[1][0], "FrameDefinition", "identifier")
        for ins in b_e:
            r = ref_sets(td, decide, [ident], ins, m)
            if r == "unqualified-reset":
                # RESET without operand acts on every qubit the (simplified) program uses: frames on exactly that set
                allq = [q for x in b_e for q in body_qubits(td, x)]
                fq = fld(td, ident, "FrameIdentifier", "qubits")
                if all(any(decide(tree_eq(a, b, m)) for b in allq) for a in fq) and all(any(decide(tree_eq(a, b, m)) for a in fq) for b in allq): return True
            elif r is not None and 0 in r[0]: return True
        return False

    def waveform_used(d):
        name = fld(td, d[1][0], "WaveformDefinition", "name")
        for ins in b_e:
            if ins[0] in ("Pulse", "Capture"):
                w = fld(td, ins[1][0], ins[0], "waveform")
                if decide(tree_eq(fld(td, w, "WaveformInvocation", "name"), name, m)): return True
        return False

    def extern_used(d):
        args = fld(td, d[1][0], "Pragma", "arguments")
        name = args[0][1][0]
        for ins in b_e:
            if ins[0] == "Call" and decide(tree_eq(fld(td, ins[1][0], "Call", "name"), name, m)): return True
        return False

    keep_exactly("FrameDefinition", frame_used)
    keep_exactly("WaveformDefinition", waveform_used)
    keep_exactly("Pragma", extern_used)
    # every computed block schedule is the same as for the expanded program
    if len(obs) > 8:
        se, ss = obs[7], obs[8]
        if req("schedules:block-count", "", len(se) == len(ss)):
            for x, y in zip(se, ss):
                if "sched" in x:
                    req("schedules:same", "computed", "sched" in y and x["sched"] == y["sched"])
                else:
                    req("schedules:same", "uncomputable", "sched_err" in y)


def floats(o):
    """hexadecimal bit patterns of the native schedules -> floats"""
    if isinstance(o, list): return [floats(x) for x in o]
    if isinstance(o, dict): return {k: (True if k == "sched_err" else floats(v)) for k, v in o.items()}
    if isinstance(o, str) and len(o) == 16 and all(c in "0123456789abcdef" for c in o): return _struct.unpack("<d", _struct.pack("<Q", int(o, 16)))[0]
    return o


SCRIPT = [["from", "p", None], ["expand_calibrations", "e", "p"], ["simplify", "s", "p"], ["to_instructions", "p"], ["to_instructions", "e"], ["body", "e"],
          ["to_instructions", "s"], ["body", "s"], ["block_schedules", "e"], ["block_schedules", "s"]]


class C35(Check):
    id = "C35"
    title = "Dead-code removal keeps execution and removes exactly unused definitions"
    functions = ["Program::simplify::<DefaultHandler>", "Program::expand_calibrations", "<DefaultHandler as InstructionHandler>::matching_frames", "FrameSet::intersection",
                 "Instruction::get_waveform_invocation", "ExternPragmaMap::retain", "Program::to_instructions"]
    assumptions = ["programs with two frame, two waveform and two extern definitions whose keys the solver chooses from two-element alphabets (so they may coincide), one declaration, "
                   "one DEFGATE, one DEFCIRCUIT, at most one calibration (4 shapes) and a body of <= N instructions from 10 templates",
                   "frames used by an instruction: reference sets of the Quil-T rules (shared with C26); waveforms invoked: PULSE / CAPTURE waveform names; externs called: CALL names",
                   "the expanded program is the real expand_calibrations result (its own correctness is C17's subject)"]
    outside = ["schedules of bodies outside the schedule sub-space (gate, template pulse, FENCE, DELAY, SET-PHASE, RESET q; calibration none or DEFCAL g v: FENCE v)",
               "bodies containing PRAGMA", "more than N body instructions",
               "stubs in the schedule sub-space: ExternSignature::from_str is a table over the alphabet's two signature strings (parsed natively once), "
               "validate_user_identifier accepts exactly the alphabet's extern names (both go through the lexer, which is not interpreted)"]
    N = {"quick": 2, "thorough": 3}
    sample_rate = 16
    max_paths = {"quick": 800000, "thorough": 8000000}

    def body_tpls(self, tier):
        return [t for t in BODY if tier != "quick" or t.name in QUICK_BODY]

    def bounds(self, tier):
        return {"body": f"<= {self.N[tier]}", "body_templates": [t.name for t in self.body_tpls(tier)], "calibrations": [t.name for t in CALS], "definitions": [t.name for t in DEFS]}

    def setup(self, world, runner, tier):
        self.td = world.td
        parse_templates(runner, world.td, DEFS + CALS + BODY)
        # scheduling parses the extern signatures (lexer + parser: text tier).  The two signature strings of the alphabet are
        # parsed natively once; ExternSignature::from_str is a table lookup on exactly these strings (stub, listed in assumptions)
        table = {}
        for sig in ("(x : INTEGER)", "(x : mut INTEGER)"):
            r = runner.call({"op": "extern_signature_map", "program": f'PRAGMA EXTERN f "{sig}"'})
            if "ok" not in r: raise native.NativeError(f"extern signature {sig}: {r}")
            table[sig] = parse_debug(r["ok"])[1][0][1][0][1]          # ExternSignatureMap({"f": sig}) -> sig tree

        def sig_from_str(m, s):
            text = m.str_concrete(s)
            if text not in table: raise Unsupported(f"ExternSignature::from_str on {text!r} (only the alphabet's signatures are tabulated)")
            return OK(from_tree(m.td, table[text], "ExternSignature"))
        world.models["<ExternSignature as FromStr>::from_str"] = sig_from_str

        def validate_user_identifier(m, s):
            text = m.str_concrete(s)
            if text not in EN: raise Unsupported(f"validate_user_identifier on {text!r} (only the alphabet's extern names are tabulated as valid)")
            return OK(UNIT)
        world.models["validate_user_identifier"] = world.models["validation::identifier::validate_user_identifier"] = validate_user_identifier

    def plan(self, ctx):
        by = {t.name: t for t in CALS + BODY}
        slots = [(t, f"d{i}_") for i, t in enumerate(DEFS)]
        if ctx["cal"]: slots.append((by[ctx["cal"]], "c_"))
        slots += [(by[s], f"b{j}_") for j, s in enumerate(ctx["body"])]
        return slots

    def script(self, n, mode="defs"):
        s = [list(x) for x in (SCRIPT if mode == "sched" else SCRIPT[:8])]
        s[0][2] = list(range(n))
        return s

    def path(self, m):
        # two sub-spaces: "defs" (which definitions survive; any body) and "sched" (the schedules of the simplified and the
        # expanded program; bodies whose durations are known, waveform / extern names pinned: they do not influence timing)
        mode = m.choose([("defs", None), ("sched", None)])
        if mode == "defs":
            cal = m.choose([(None, None)] + [(t.name, None) for t in CALS])
            n = m.choose([(j, None) for j in range(1, self.N[m.tier] + 1)])
            body = [m.choose([(t.name, None) for t in self.body_tpls(m.tier)]) for _ in range(n)]
        else:
            cal = m.choose([(None, None), ("cal-fence", None)])
            n = m.choose([(j, None) for j in range(1, self.N[m.tier] + 1)])
            body = [m.choose([(x, None) for x in SCHED_BODY]) for _ in range(n)]
        m.ctx = {"cal": cal, "body": body, "mode": mode}
        slots = self.plan(m.ctx)
        pin = {"w": Str(WN[0]), "e": Str(EN[0])} if mode == "sched" else None
        ins = [instantiate(m, t, pre, shared=pin)[0] for t, pre in slots]
        obs = run_script(m, self.script(len(ins), mode), ins)
        oracle(lambda k, d, g: m.require(k, d, g), m.branch_bool, m.td, obs, m)
        if m.want_sample() and m._check() == z3.sat:
            zm = m.solver.model()
            mdl = m.model_dict(zm); mdl["_ctx"] = m.ctx
            c = self.case("sample", "", mdl)
            c["obs"] = json_tree(eval_tree(obs, zm, None))
            return c
        return None

    def case(self, kind, detail, model):
        slots = self.plan(model["_ctx"])
        return {"texts": [t.render(hole_values(t, pre, model)) for t, pre in slots], "mode": model["_ctx"].get("mode", "defs"), "kind": kind, "detail": detail}

    def native(self, runner, case):
        obs, raw = native_script(runner, self.script(len(case["texts"]), case.get("mode", "defs")), case["texts"])
        if obs is not None and len(obs) > 8: obs[7], obs[8] = floats(obs[7]), floats(obs[8])
        return obs, raw

    def confirm(self, runner, case):
        obs, raw = self.native(runner, case)
        if obs is None:
            if "panic" in raw or "crash" in raw: return True, "panic", f"simplify panics on {case['texts']}: {raw}"
            return None, "input", str(raw)[:300]
        col = Collect()
        oracle(col, bool, self.td, obs)
        if not col.failed: return False, "", "native run satisfies the oracle"
        kind, detail = col.failed[0]
        return True, f"{kind}:{detail}", f"{kind} ({detail}) fails for {case['texts']}: simplified listing {raw['out'][6] if len(raw['out']) > 6 else raw['out']}"

    def validate(self, runner, sample):
        obs, raw = self.native(runner, sample)
        if obs is None: return f"native run failed: {raw}"
        a, b = json_tree(obs), sample["obs"]
        if a != b: return f"observations differ on {sample['texts']}: " + str(tree_diff(a, b))
        return None

    def canary(self, runner, tier):
        texts = [DEFS[0].render({"q": 0, "f": "a"}), DEFS[1].render({"q": 1, "f": "b"}), 'PULSE 0 "a" ' + FLAT]
        obs, raw = self.native(runner, {"texts": texts})
        if obs is None: return f"canary input failed: {raw}"
        col = Collect()
        obs[5] = obs[3]; obs[6] = obs[4]          # pretend simplify kept the unused frame 1 "b"
        oracle(col, bool, self.td, obs)
        return True if any(k == "kept:FrameDefinition" for k, _ in col.failed) else "oracle accepted an unused frame"


CHECK = C35()
