"""C11 — program concatenation appends bodies and merges definitions."""
from containers import *

TP = [t for t in TPLS if t.name not in ("measure", "halt")]
OBS = [["to_instructions", "s"], ["to_instructions", "t"], ["eq", "s", "t"], ["used_qubits", "s"], ["used_qubits", "a"], ["used_qubits", "b"],
       ["eq", "ae", "a"], ["eq", "ea", "a"], ["to_instructions", "ae"], ["to_instructions", "ea"], ["to_instructions", "a"]]


def set_eq(xs, ys, m=None):
    return and_all([and_all(or_any(tree_eq(x, y, m) for y in ys) for x in xs), and_all(or_any(tree_eq(x, y, m) for x in xs) for y in ys)])


def oracle(req, decide, seq_a, seq_b, obs, m=None, norm=lambda x: x):
    s_l, t_l, eq_st, uq_s, uq_a, uq_b, eq_ae, eq_ea, ae_l, ea_l, a_l = obs
    s_l, t_l, ae_l, ea_l, a_l = norm(s_l), norm(t_l), norm(ae_l), norm(ea_l), norm(a_l)
    ra, rb = Ref_(decide, m), Ref_(decide, m)
    for t in seq_a: ra.add(t)
    for t in seq_b: rb.add(t)
    ra.concat(rb)
    check_listing(req, ra, s_l, "add", m)
    check_listing(req, ra, t_l, "add_assign", m)
    req("add-vs-add_assign:eq", "", eq_st)
    req("used-qubits:union", "", set_eq(uq_s, list(uq_a) + list(uq_b), m))
    req("identity:right:eq", "", eq_ae)
    req("identity:left:eq", "", eq_ea)
    if req("identity:right:listing-length", "", len(ae_l) == len(a_l)):
        req("identity:right:listing", "", and_all(tree_eq(x, y, m) for x, y in zip(ae_l, a_l)))
    if req("identity:left:listing-length", "", len(ea_l) == len(a_l)):
        req("identity:left:listing", "", and_all(tree_eq(x, y, m) for x, y in zip(ea_l, a_l)))


class C11(Check):
    id = "C11"
    title = "Program concatenation appends bodies and merges definitions"
    functions = ["<Program as Add>::add", "<Program as AddAssign>::add_assign", "Calibrations::extend", "CalibrationSet::extend", "FrameSet::merge",
                 "ExternPragmaMap::extend", "Program::from_instructions", "Program::to_instructions", "Program::get_used_qubits", "<Program as PartialEq>::eq"]
    assumptions = ["HashMap/HashSet iteration follows insertion order here (C08 covers unordered iteration)", "IndexMap::extend keeps the position of existing keys",
                   "instruction values come from natively parsed templates with solver-chosen keys, values and qubits"]
    outside = ["operands longer than the bound", "instruction kinds outside the template alphabet"]
    N = {"quick": 2, "thorough": 3}
    sample_rate = 128
    max_paths = {"quick": 150000, "thorough": 3000000}

    def bounds(self, tier):
        return {"len(A)": f"<= {self.N[tier]}", "len(B)": f"<= {self.N[tier]}", "templates": [t.name for t in TP]}

    def setup(self, world, runner, tier):
        self.td = world.td
        parse_templates(runner, world.td, TP)

    def script(self, na, nb):
        return [["from", "a", list(range(na))], ["from", "b", list(range(na, na + nb))], ["add", "s", "a", "b"], ["clone", "t", "a"], ["add_assign", "t", "b"],
                ["new", "e"], ["add", "ae", "a", "e"], ["add", "ea", "e", "a"]] + OBS

    def path(self, m):
        nmax = self.N[m.tier]
        na = m.choose([(k, None) for k in range(0, nmax + 1)])
        # quick: |A| + |B| <= 3 (overlap needs 1+1, order-with-overlap 2+1 / 1+2); thorough: both up to the bound
        nb = m.choose([(k, None) for k in range(0, (nmax if m.tier == "thorough" else min(nmax, 3 - na)) + 1)])
        ins = sym_instructions(m, na, "a", TP) + sym_instructions(m, nb, "b", TP)
        obs = run_script(m, self.script(na, nb), ins)
        seq = [to_tree(m, x) for x in ins]
        oracle(lambda k, d, g: m.require(k, d, g), m.branch_bool, seq[:na], seq[na:], obs, m)
        if m.want_sample() and m._check() == z3.sat:
            zm = m.solver.model()
            mdl = m.model_dict(zm)
            return {"na": na, "nb": nb, "texts": self.texts(na, nb, mdl), "obs": json_tree(eval_tree(obs, zm, None))}
        return None

    def texts(self, na, nb, model):
        return texts_from_model(self.td, na, model, "a", TP) + texts_from_model(self.td, nb, model, "b", TP)

    def case(self, kind, detail, model):
        na = nb = 0
        while f"a{na}_kind" in model: na += 1
        while f"b{nb}_kind" in model: nb += 1
        return {"na": na, "nb": nb, "texts": self.texts(na, nb, model), "kind": kind}

    def native(self, runner, case):
        obs, raw = native_script(runner, self.script(case["na"], case["nb"]), case["texts"])
        if obs is None: return None, None, raw
        r = runner.call({"op": "parse_instructions", "texts": case["texts"]})
        seq = [parse_debug(x["ok"][0]) for x in r["results"]]
        return seq, obs, raw

    def confirm(self, runner, case):
        seq, obs, raw = self.native(runner, case)
        if obs is None:
            if "panic" in raw or "crash" in raw: return True, "panic", f"panics on {case['texts']}: {raw}"
            return False, "input", str(raw)[:300]
        col = Collect()
        oracle(col, bool, seq[:case["na"]], seq[case["na"]:], obs, norm=normalize_frames)
        if not col.failed: return False, "", "native run satisfies the oracle"
        kind, detail = col.failed[0]
        return True, kind, f"{kind} fails for A={case['texts'][:case['na']]} B={case['texts'][case['na']:]}: A+B={raw['out'][0]}"

    def validate(self, runner, sample):
        seq, obs, raw = self.native(runner, sample)
        if obs is None: return f"native run failed: {raw}"
        nat = json_tree(obs)
        a, b = [normalize_obs(x) for x in nat], [normalize_obs(x) for x in sample["obs"]]
        if a != b: return "observations differ: " + str(tree_diff(a, b))
        return None

    def canary(self, runner, tier):
        case = {"na": 1, "nb": 1, "texts": ["DECLARE ro BIT[1]", "DECLARE ro BIT[2]"]}
        seq, obs, raw = self.native(runner, case)
        col = Collect()
        oracle(col, bool, seq[1:], seq[:1], obs, norm=normalize_frames)       # swapped operands: B's value must not win
        return True if col.failed else "oracle accepted A's value winning over B's"


def normalize_obs(x):
    if isinstance(x, list) and x and isinstance(x[0], list) and x[0] and x[0][0] in ("Fixed", "Variable", "Placeholder"):
        return sorted(x, key=lambda t: json.dumps(t))           # used-qubit sets
    return normalize_frames(x)


CHECK = C11()
