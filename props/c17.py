"""C17 — see calib.py (shared driver of the calibration-expansion properties)."""
from calib import *


class C17(CalibCheck):
    id = "C17"
    prop = "C17"
    title = {"C17": "Calibration expansion is a complete, faithful substitution", "C18": "Calibration expansion always terminates without crashing",
             "C19": "The calibration source map exactly accounts for every expansion"}["C17"]

    quick_bodies = QUICK_BODIES + ("kinds",)          # C17 only: substitution has to reach every instruction kind

    def canary(self, runner, tier):
        case = {"program": "DEFCAL RX v:\n\tFENCE v\nDEFCAL RY 0:\n\tRY 0\nRX 0"}
        obs, raw = self.native(runner, case)
        if obs is None: return f"canary input failed natively: {raw}"
        col = Collect()
        if "C17" == "C17": obs["plain"]["body"] = [obs["_src"][0]]
        elif "C17" == "C18": obs["plain"] = {"err": ("RecursiveCalibration", [])}
        else: obs["mapped"]["source_map"] = ("SourceMap", [[]])
        self.oracle(col, bool, self.td, obs["_gcals"], obs["_mcals"], obs["_src"], obs)
        return True if col.failed else "oracle accepted a wrong expansion result"


CHECK = C17()
