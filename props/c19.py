"""C19 — see calib.py (shared driver of the calibration-expansion properties)."""
from calib import *


class C19(CalibCheck):
    id = "C19"
    prop = "C19"
    title = {"C17": "Calibration expansion is a complete, faithful substitution", "C18": "Calibration expansion always terminates without crashing",
             "C19": "The calibration source map exactly accounts for every expansion"}["C19"]

    # the source map depends on nesting depth and on how many instructions each level emits, not on what is substituted:
    # three levels of nesting over bodies of one to three instructions, one or two of them calls
    K = {"quick": 3, "thorough": 3}
    quick_bodies = ("x", "x-fence", "decl-x", "extern-x", "x-decl-fence")
    quick_headers = ("hf", "hv")
    quick_body = ("g",)
    sorted_shapes = {"quick": True}
    thorough_bodies = ("x", "xfixed", "x-fence", "fence-x-fence", "three", "decl-x", "fence", "meas", "cap-addr")
    thorough_headers = ("hf", "hv", "hpv", "mv")

    def canary(self, runner, tier):
        case = {"program": "DEFCAL RX v:\n\tFENCE v\nDEFCAL RY 0:\n\tRY 0\nRX 0"}
        obs, raw = self.native(runner, case)
        if obs is None: return f"canary input failed natively: {raw}"
        col = Collect()
        if "C19" == "C17": obs["plain"]["body"] = [obs["_src"][0]]
        elif "C19" == "C18": obs["plain"] = {"err": ("RecursiveCalibration", [])}
        else: obs["mapped"]["source_map"] = ("SourceMap", [[]])
        self.oracle(col, bool, self.td, obs["_gcals"], obs["_mcals"], obs["_src"], obs)
        return True if col.failed else "oracle accepted a wrong expansion result"


CHECK = C19()
