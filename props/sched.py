"""Group F — block dependency graphs (C22, C23, C24): shared driver and oracles.

One block of N instructions (solver-chosen operands) over a small fixed frame set is scheduled by the real
`ScheduledProgram::from_program` (DefaultHandler); the dependency graph is compared with the statement's requirements.
Per-instruction memory accesses and matched frames are taken from the handler itself (their correctness is C26 / C27)."""
from common import *
from c26 import WF

# qubit 2 is only touched by a two-qubit frame (so RESET 2 / FENCE 2 match frames without using any exactly)
FRAMES = ('DEFFRAME 0 "a":\n\tDIRECTION: "tx"\nDEFFRAME 1 "a":\n\tDIRECTION: "tx"\nDEFFRAME 0 1 "b":\n\tDIRECTION: "tx"\nDEFFRAME 1 2 "c":\n\tDIRECTION: "tx"\n'
          'DECLARE x BIT[4]\nDECLARE y BIT[4]')
REG = ["x", "y"]
REGZ = ["x", "y", "z"]          # z is not declared (the scheduler accepts undeclared regions); used by the MOVE templates
Q = [0, 1]
Q3 = [0, 1, 2]
FN = ["a", "b"]
CLASSICAL = [
    Tpl("move-lit", "MOVE {d}[0] 1", d=("str", REGZ)),
    Tpl("move-ref", "MOVE {d}[0] {s}[1]", d=("str", REGZ), s=("str", REGZ)),
    Tpl("add", "ADD {d}[0] {s}[0]", d=("str", REG), s=("str", REG)),
    Tpl("load", "LOAD {d}[0] {s} {i}[0]", d=("str", REG), s=("str", REG), i=("str", REG)),
    Tpl("measure", "MEASURE {q} {d}[0]", q=("int", Q), d=("str", REG)),
]
RF = [
    Tpl("pulse", 'PULSE {q} "{f}" ' + WF, q=("int", Q), f=("str", FN)),
    Tpl("nbpulse", 'NONBLOCKING PULSE {q} "{f}" ' + WF, q=("int", Q), f=("str", FN)),
    Tpl("pulse2", 'PULSE 0 1 "{f}" ' + WF, f=("str", FN)),
    Tpl("capture", 'CAPTURE {q} "{f}" ' + WF + " {d}[0]", q=("int", Q), f=("str", FN), d=("str", REG)),
    Tpl("setphase", 'SET-PHASE {q} "{f}" {s}[0]', q=("int", Q), f=("str", FN), s=("str", REG)),
    Tpl("shiftfreq", 'SHIFT-FREQUENCY {q} "{f}" 1.0', q=("int", Q), f=("str", FN)),
    Tpl("delay", "DELAY {q} 1.0", q=("int", Q3)),
    Tpl("fence", "FENCE {q}", q=("int", Q3)),
    Tpl("fenceall", "FENCE"),
    Tpl("reset", "RESET {q}", q=("int", Q3)),
    Tpl("swapphases", 'SWAP-PHASES 0 "a" 1 "a"'),
    Tpl("capture-self", 'CAPTURE {q} "{f}" flat(duration: 1.0, iq: {d}[1]) {d}[0]', q=("int", Q), f=("str", FN), d=("str", REG)),
    Tpl("shiftphase2", 'SHIFT-PHASE 0 1 "{f}" 1.0', f=("str", FN)),
]
TERMS = [Tpl("jumpwhen", "JUMP-WHEN @l {s}[0]", s=("str", REG)), Tpl("halt", "HALT")]
ALPHABETS = {"C22": CLASSICAL + RF, "C23": CLASSICAL + [RF[3], RF[4], RF[0], RF[11]], "C24": RF + [CLASSICAL[0]]}
# one more instruction when every instruction is a pulse on one qubit, a pulse on both qubits or a frame update on both qubits:
# "the later use depends on EVERY earlier blocker" needs two blockers and a user
FOCUS3 = {"C24": ("pulse", "pulse2", "shiftphase2")}


def node_ord(n, count):
    if n[0] == "BlockStart": return -1
    if n[0] == "BlockEnd": return count
    return n[1][0]


def reach(edges, count, pred=lambda deps: True):
    """adjacency closure over node ords (-1 .. count) using the edges whose dependency set satisfies pred"""
    adj = {}
    for a, b, deps in edges:
        if pred(deps): adj.setdefault(node_ord(a, count), set()).add(node_ord(b, count))
    clo = {}
    for s in range(-1, count + 1):
        seen, st = set(), [s]
        while st:
            x = st.pop()
            for y in adj.get(x, ()):
                if y not in seen: seen.add(y); st.append(y)
        clo[s] = seen
    return clo


def dep_kinds(deps):
    return {d[0] for d in deps}


def oracle(prop, req, info, edges):
    """info: per instruction (body then terminator) dict(role, scheduled, reads, writes, captures, used, blocked) with concrete
    sets; edges: [(src node tree, dst node tree, [dependency trees])]; all concrete on this path"""
    n_body = sum(1 for x in info if not x["terminator"])
    count = n_body                       # BlockEnd has ord count
    ords = [count if x["terminator"] else i for i, x in enumerate(info)]
    if prop == "C22":
        for a, b, deps in edges:
            req("edge-forward", f"{a[0]}->{b[0]}", node_ord(a, count) < node_ord(b, count))
        allm = all(x["role"] != "RFControl" or x["frames_matched"] for x in info)
        if allm:
            clo = reach(edges, count)
            for i in range(n_body):
                req("reachable-from-start", info[i]["kind"], i in clo[-1])
                req("reaches-end", info[i]["kind"], count in clo[i])
        return
    if prop == "C23":
        clo = reach(edges, count)

        def conflict(x, y):
            wx, wy = x["writes"] | x["captures"], y["writes"] | y["captures"]
            ax, ay = wx | x["reads"], wy | y["reads"]
            return bool((wx & ay) | (wy & ax))
        for i in range(len(info)):
            for j in range(i + 1, len(info)):
                if conflict(info[i], info[j]):
                    req("conflict-ordered", f"{info[i]['kind']}->{info[j]['kind']}", ords[j] in clo[ords[i]])
        by_ord = {o: x for o, x in zip(ords, info)}
        for a, b, deps in edges:
            if "AwaitMemoryAccess" in dep_kinds(deps):
                oa, ob = node_ord(a, count), node_ord(b, count)
                ok = oa in by_ord and ob in by_ord and conflict(by_ord[oa], by_ord[ob])
                req("memory-edge-justified", f"{by_ord[oa]['kind'] if oa in by_ord else a[0]}->{by_ord[ob]['kind'] if ob in by_ord else b[0]}", ok)
        return
    if prop == "C24":
        ordering = reach(edges, count, lambda deps: "StableOrdering" in dep_kinds(deps))
        timed = reach(edges, count, lambda deps: "Scheduled" in dep_kinds(deps))

        def conflict(x, y):
            return bool((x["used"] & (y["used"] | y["blocked"])) | (y["used"] & (x["used"] | x["blocked"])))
        rf = [(o, x) for o, x in zip(ords, info) if x["role"] == "RFControl"]
        for ai in range(len(rf)):
            for bi in range(ai + 1, len(rf)):
                (oi, x), (oj, y) = rf[ai], rf[bi]
                if conflict(x, y):
                    req("frame-conflict-ordered", f"{x['kind']}->{y['kind']}", oj in ordering[oi])
                    if x["scheduled"] and y["scheduled"]:
                        req("frame-conflict-timed", f"{x['kind']}->{y['kind']}", oj in timed[oi])
        by_ord = {o: x for o, x in zip(ords, info)}
        for a, b, deps in edges:
            ks = dep_kinds(deps)
            if not ({"StableOrdering", "Scheduled"} & ks): continue
            oa, ob = node_ord(a, count), node_ord(b, count)
            if oa == -1 or ob == count: continue          # block boundaries
            x, y = by_ord.get(oa), by_ord.get(ob)
            ok = x is not None and y is not None and x["role"] == "RFControl" and y["role"] == "RFControl" and conflict(x, y)
            req("frame-edge-justified", f"{x['kind'] if x else a[0]}->{y['kind'] if y else b[0]}", ok)
            if "Scheduled" in ks:
                req("timed-edge-between-timed", f"{x['kind'] if x else a[0]}->{y['kind'] if y else b[0]}", bool(x and y and x["scheduled"] and y["scheduled"]))
        return


class SchedCheck(Check):
    functions = ["ScheduledProgram::from_program", "ScheduledBasicBlock::build", "DependencyQueue::{new,record_access_and_get_dependencies,into_pending_dependencies}",
                 "<MemoryAccessType as Access>::*", "<InstructionFrameInteraction as Access>::*", "<ControlFlowGraph as From<&Program>>::from",
                 "<DefaultHandler as InstructionHandler>::{memory_accesses,matching_frames,is_scheduled,role}"]
    assumptions = ["one block of <= N instructions (plus an optional terminator; C22 only: after the terminator of a one-instruction block, optionally a second block of one instruction, each block held to the same requirements) over a fixed set of three frames and two memory regions; instruction operands are solver variables",
                   "petgraph GraphMap modelled as node / edge lists with the interpreted Eq of ScheduledGraphNode; HashMap / HashSet as association lists",
                   "per-instruction memory accesses and matched frames are taken from the interpreted handler (their correctness is C26 / C27)"]
    outside = ["blocks longer than the bound", "C22: programs of more than two blocks, second blocks longer than one instruction; C23, C24: multi-block programs beyond one terminator", "custom InstructionHandlers"]
    N = {"quick": 2, "thorough": 3}
    sample_rate = 16
    wall_cap = {"quick": 900, "thorough": 7200}
    max_paths = {"quick": 600000, "thorough": 8000000}
    prop = "C22"

    def bounds(self, tier):
        return {"block_length": f"<= {self.N[tier]}", "templates": [t.name for t in ALPHABETS[self.prop]], "terminators": [t.name for t in TERMS] + ["none"]}

    def setup(self, world, runner, tier):
        self.td = world.td
        self.tpls = ALPHABETS[self.prop]
        parse_templates(runner, world.td, self.tpls + TERMS)
        r = runner.call({"op": "parse_instructions", "texts": [FRAMES]})["results"][0]
        self.prelude = [parse_debug(x) for x in r["ok"]]

    def path(self, m):
        td = m.td
        N = self.N[m.tier]
        focus = FOCUS3.get(self.prop)
        n = m.choose([(k, None) for k in range(1, N + (2 if focus else 1))])
        pool = [t.name for t in self.tpls] if n <= N else list(focus)
        names = [m.choose([(x, None) for x in pool]) for _ in range(n)]
        term = m.choose([(t, None) for t in ["none"] + [t.name for t in TERMS]]) if n <= N else "none"
        # a second block: one instruction after the terminator of a one-instruction block (nothing of the first block may reach into it)
        tail = [x for x in [m.choose([(x, None) for x in [None] + pool])] if x] if term != "none" and n == 1 and self.prop == "C22" else []
        kinds = names + ([term] if term != "none" else []) + tail
        groups = [list(range(len(kinds) - len(tail)))] + ([[len(kinds) - 1]] if tail else [])
        m.ctx = {"names": names, "term": term, "tail": tail}
        prog = m.call_path("Program::new", [])
        cell = [prog]
        for t in self.prelude:
            m.call_path("Program::add_instruction", [Ref(cell, 0), from_tree(td, t, "Instruction")])
        by = {t.name: t for t in self.tpls + TERMS}
        body = []
        for i, nm in enumerate(kinds):
            ins, hv = instantiate(m, by[nm], f"i{i}_")
            body.append(ins)
            m.call_path("Program::add_instruction", [Ref(cell, 0), deep_clone(ins)])
        handler = Ref([Agg("DefaultHandler", None, [])], 0)
        r = m.call_path("ScheduledProgram::from_program::<DefaultHandler>", [Ref(cell, 0), handler])
        m.force_tag(r)
        if r.tag != 0:
            m.require("schedules", ",".join(names), True)
            m.world.count("schedule_errors")
            return None
        blocks = r.fields[0].fields[0].items
        if len(blocks) != len(groups): raise Unsupported(f"{len(blocks)} blocks, expected {len(groups)}")
        edges_b = []
        for sb in blocks:
            sb = sb[1] if isinstance(sb, tuple) else sb
            g = sb.fields[td.structs["ScheduledBasicBlock"].index("graph")]
            edges_b.append([(to_tree(m, e[0]), to_tree(m, e[1]), to_tree(m, e[2])[1]) for e in g.edges])
        # per-instruction facts from the interpreted handler
        sm = m.call_path("<ExternSignatureMap as Default>::default", []) if False else Agg("ExternSignatureMap", None, [MapObj("index")])
        info = []
        for i, ins in enumerate(body):
            ic = Ref([ins], 0)
            acc = m.call_path("<DefaultHandler as InstructionHandler>::memory_accesses", [handler, Ref([sm], 0), ic])
            m.force_tag(acc)
            an = td.structs["MemoryAccesses"]
            sets = {k: frozenset(m.str_concrete(x[0]) for x in acc.fields[0].fields[an.index(k)].items) for k in ("reads", "writes", "captures")}
            mf = m.call_path("<DefaultHandler as InstructionHandler>::matching_frames", [handler, Ref(cell, 0), ic])
            m.force_tag(mf)
            used = blocked = frozenset()
            if mf.tag == 1:
                mn = td.structs["MatchedFrames"]
                key = lambda f: json.dumps(json_tree(self.concrete(m, to_tree(m, f))))
                used = frozenset(key(x[0]) for x in mf.fields[0].fields[mn.index("used")].items)
                blocked = frozenset(key(x[0]) for x in mf.fields[0].fields[mn.index("blocked")].items)
            role = m.call_path("<DefaultHandler as InstructionHandler>::role", [handler, ic]); m.force_tag(role)
            sched = m.branch_bool(m.call_path("<DefaultHandler as InstructionHandler>::is_scheduled", [handler, ic]))
            info.append({"kind": kinds[i], "terminator": i == n and term != "none", "role": td.enums["InstructionRole"][role.tag], "scheduled": sched,
                         "frames_matched": bool(used | blocked), "used": used, "blocked": blocked, **sets})
        for grp, edges in zip(groups, edges_b):
            oracle(self.prop, lambda k, d, g_: m.require(k, d, g_), [info[i] for i in grp], edges)
        if m.want_sample() and m._check() == z3.sat:
            zm = m.solver.model()
            mdl = m.model_dict(zm); mdl["_ctx"] = m.ctx
            c = self.case("sample", "", mdl)
            c["edges"] = [sorted(json.dumps(json_tree([e[0], e[1], sorted(json.dumps(json_tree(d)) for d in e[2])])) for e in edges) for edges in edges_b]
            return c
        return None

    def concrete(self, m, t):
        """frames on this path are concrete after the handler's forks; symbolic leaves are concretized by forking"""
        if isinstance(t, tuple): return (t[0], [self.concrete(m, x) for x in t[1]])
        if isinstance(t, list): return [self.concrete(m, x) for x in t]
        if isinstance(t, Str): return m.str_concrete(t)
        if is_sym(t): return m.concretize_int(t, list(range(0, 4)))
        return t

    def case(self, kind, detail, model):
        ctx = model["_ctx"]
        by = {t.name: t for t in self.tpls + TERMS}
        lines = []
        for i, nm in enumerate(ctx["names"] + ([ctx["term"]] if ctx["term"] != "none" else []) + ctx.get("tail", [])):
            lines.append(by[nm].render(hole_values(by[nm], f"i{i}_{nm}_", model)) if False else by[nm].render(hole_values(by[nm], f"i{i}_", model)))
        return {"program": FRAMES + "\n" + "\n".join(lines), "body": lines, "kind": kind, "detail": detail, "names": ctx["names"], "term": ctx["term"], "tail": ctx.get("tail", [])}

    def native(self, runner, case):
        r = runner.call({"op": "schedule_graph", "program": case["program"]})
        if "blocks" not in r: return None, r
        tail = case.get("tail", [])
        if len(r["blocks"]) != (2 if tail else 1): return None, {"input_error": "unexpected number of blocks"}
        edges = [[(parse_debug(e[0]), parse_debug(e[1]), [parse_debug(d) for d in e[2]]) for e in b["edges"]] for b in r["blocks"]]
        ma = runner.call({"op": "memory_accesses", "program": FRAMES, "instructions": case["body"]})["results"]
        mf = runner.call({"op": "matching_frames", "program": case["program"], "instructions": case["body"]})["results"]
        ro = runner.call({"op": "roles", "instructions": case["body"]})["results"]
        info = []
        n = len(case["names"])
        for i in range(len(case["body"])):
            used = frozenset(json.dumps(json_tree(parse_debug(x))) for x in mf[i].get("used", []))
            blocked = frozenset(json.dumps(json_tree(parse_debug(x))) for x in mf[i].get("blocked", []))
            info.append({"kind": (case["names"] + ([case["term"]] if case["term"] != "none" else []) + tail)[i], "terminator": i == n and case["term"] != "none", "role": ro[i]["role"], "scheduled": ro[i]["scheduled"],
                         "frames_matched": bool(used | blocked), "used": used, "blocked": blocked,
                         "reads": frozenset(ma[i]["reads"]), "writes": frozenset(ma[i]["writes"]), "captures": frozenset(ma[i]["captures"])})
        nb = len(case["body"])
        groups = [list(range(nb - len(tail)))] + ([[nb - 1]] if tail else [])
        return (info, edges, groups), r

    def confirm(self, runner, case):
        obs, raw = self.native(runner, case)
        if obs is None:
            if "panic" in raw or "crash" in raw: return True, "panic", f"scheduling panics: {raw} on {case['body']}"
            if "err" in raw: return False, "", f"does not schedule natively: {raw}"
            return None, "input", str(raw)[:300]
        col = Collect()
        for grp, edges in zip(obs[2], obs[1]):
            oracle(self.prop, col, [obs[0][i] for i in grp], edges)
        if not col.failed: return False, "", "native run satisfies the oracle"
        kind, detail = col.failed[0]
        return True, f"{kind}:{detail}", f"{kind} ({detail}) fails for block(s) {case['body']}: edges={[b['edges'] for b in raw['blocks']]}"

    def validate(self, runner, sample):
        obs, raw = self.native(runner, sample)
        if obs is None: return f"native failed: {raw}"
        nat = [sorted(json.dumps(json_tree([e[0], e[1], sorted(json.dumps(json_tree(d)) for d in e[2])])) for e in edges) for edges in obs[1]]
        if nat != sample["edges"]: return f"edges differ for {sample['body']}: native {nat} mirsym {sample['edges']}"
        return None
