"""C27 — reported memory accesses match each instruction's semantics."""
from common import *
from c26 import fld

R = ["a", "b", "c"]
H = lambda *ns: {n: ("str", R) for n in ns}
EXTERNS = 'PRAGMA EXTERN foo "(x : INTEGER, y : mut REAL[2], z : REAL)"\nPRAGMA EXTERN bar "INTEGER (x : mut INTEGER, y : REAL)"\nDECLARE a INTEGER[4]\nDECLARE b REAL[4]\nDECLARE c REAL[4]'
TPLS = [
    Tpl("move-ref", "MOVE {d}[0] {s}[1]", **H("d", "s")), Tpl("move-lit", "MOVE {d}[0] 1", **H("d")),
    Tpl("add-ref", "ADD {d}[0] {s}[0]", **H("d", "s")), Tpl("sub-lit", "SUB {d}[0] 2", **H("d")), Tpl("mul-real", "MUL {d}[0] 2.5", **H("d")),
    Tpl("and-ref", "AND {d}[0] {s}[0]", **H("d", "s")), Tpl("xor-lit", "XOR {d}[0] 1", **H("d")),
    Tpl("neg", "NEG {d}[0]", **H("d")), Tpl("not", "NOT {d}[1]", **H("d")),
    Tpl("eq-ref", "EQ {d}[0] {x}[0] {y}[0]", **H("d", "x", "y")), Tpl("lt-lit", "LT {d}[0] {x}[0] 1", **H("d", "x")),
    Tpl("convert", "CONVERT {d}[0] {s}[0]", **H("d", "s")), Tpl("exchange", "EXCHANGE {x}[0] {y}[0]", **H("x", "y")),
    Tpl("load", "LOAD {d}[0] {s} {i}[0]", **H("d", "s", "i")), Tpl("store-ref", "STORE {d} {i}[0] {s}[0]", **H("d", "i", "s")), Tpl("store-lit", "STORE {d} {i}[0] 1", **H("d", "i")),
    Tpl("measure", "MEASURE 0 {d}[0]", **H("d")), Tpl("measure-discard", "MEASURE 0"),
    Tpl("capture", 'CAPTURE 0 "rf" flat(duration: 1.0, iq: {x}[0]) {d}[0]', **H("x", "d")),
    Tpl("raw-capture", 'RAW-CAPTURE 0 "rf" 2*{x}[0] {d}[0]', **H("x", "d")),
    Tpl("pulse", 'PULSE 0 "rf" flat(duration: {x}, iq: {y}[1]+1)', **H("x", "y")),
    Tpl("set-phase", 'SET-PHASE 0 "rf" 2*{x}[0]', **H("x")), Tpl("shift-frequency", 'SHIFT-FREQUENCY 0 "rf" {x}[0]-{y}[1]', **H("x", "y")),
    Tpl("set-scale", 'SET-SCALE 0 "rf" sin({x})', **H("x")), Tpl("delay", "DELAY 0 ({x}[0]*2)", **H("x")),
    Tpl("jump-when", "JUMP-WHEN @l {x}[0]", **H("x")), Tpl("jump-unless", "JUMP-UNLESS @l {x}[0]", **H("x")), Tpl("jump", "JUMP @l"),
    Tpl("gate-param", "RX({x}[0]+sin(-{y})) 0", **H("x", "y")), Tpl("gate", "X 0"),
    Tpl("fence", "FENCE 0"), Tpl("reset", "RESET 0"), Tpl("nop", "NOP"), Tpl("halt", "HALT"), Tpl("label", "LABEL @l"), Tpl("pragma", "PRAGMA {x}", **H("x")),
    Tpl("declare", "DECLARE {x} BIT[1]", **H("x")), Tpl("swap-phases", 'SWAP-PHASES 0 "rf" 1 "rf"'),
    Tpl("call-foo", "CALL foo {x}[0] {y} {z}[1]", **H("x", "y", "z")), Tpl("call-foo-imm", "CALL foo 1 {y} 2.0", **H("y")),
    Tpl("call-bar", "CALL bar {r}[0] {x}[1] {y}[0]", **H("r", "x", "y")), Tpl("call-bar-imm", "CALL bar {r}[0] {x}[1] 3.0", **H("r", "x")),
    Tpl("defcal-body", "DEFCAL RX({x}[0]) 0:\n\tMOVE {d}[0] {s}[0]", **H("x", "d", "s")),
]
SIGS = {"foo": (False, [False, True, False]), "bar": (True, [True, False])}       # name -> (has return, [param mutable])


def regions(t, out=None):
    """names of every MemoryReference below t (expression operands)"""
    out = [] if out is None else out
    if isinstance(t, tuple):
        if t[0] == "MemoryReference" and len(t[1]) == 2: out.append(t[1][0])
        for x in t[1]: regions(x, out)
    elif isinstance(t, list):
        for x in t: regions(x, out)
    return out


def operand_region(op):
    """region of a classical operand tree (LiteralInteger / LiteralReal / MemoryReference)"""
    return [op[1][0][1][0]] if op[0] == "MemoryReference" else []


def reference(td, ins):
    """(reads, writes, captures) as lists of name leaves"""
    k = ins[0]
    p = ins[1][0] if ins[1] else None
    f = lambda name: fld(td, p, k, name)
    mr = lambda t: t[1][0]
    if k == "Move": return operand_region(f("source")), [mr(f("destination"))], []
    if k == "Convert": return [mr(f("source"))], [mr(f("destination"))], []
    if k in ("Arithmetic", "BinaryLogic"): return [mr(f("destination"))] + operand_region(f("source")), [mr(f("destination"))], []
    if k == "UnaryLogic": return [mr(f("operand"))], [mr(f("operand"))], []
    if k == "Exchange": return [mr(f("left")), mr(f("right"))], [mr(f("left")), mr(f("right"))], []
    if k == "Comparison": return [mr(f("lhs"))] + operand_region(f("rhs")), [mr(f("destination"))], []
    if k == "Load": return [f("source"), mr(f("offset"))], [mr(f("destination"))], []
    if k == "Store": return [mr(f("offset"))] + operand_region(f("source")), [f("destination")], []
    if k == "Measurement":
        t = f("target")
        return [], [], ([mr(t[1][0])] if t[0] == "Some" else [])
    if k == "Capture": return regions(f("waveform")), [], [mr(f("memory_reference"))]
    if k == "RawCapture": return regions(f("duration")), [], [mr(f("memory_reference"))]
    if k == "Pulse": return regions(f("waveform")), [], []
    if k in ("SetPhase", "ShiftPhase"): return regions(f("phase")), [], []
    if k in ("SetFrequency", "ShiftFrequency"): return regions(f("frequency")), [], []
    if k == "SetScale": return regions(f("scale")), [], []
    if k == "Delay": return regions(f("duration")), [], []
    if k in ("JumpWhen", "JumpUnless"): return [mr(f("condition"))], [], []
    if k == "Gate": return regions(f("parameters")), [], []
    if k == "Call":
        name = f("name")
        args = f("arguments")
        has_ret, muts = SIGS[name]
        reads, writes = [], []

        def arg_region(a):
            if a[0] == "MemoryReference": return [a[1][0][1][0]]
            if a[0] == "Identifier": return [a[1][0]]
            return []
        rest = list(args)
        if has_ret and rest:
            r = arg_region(rest.pop(0)); reads += r; writes += r
        for a, mu in zip(rest, muts):
            r = arg_region(a); reads += r
            if mu: writes += r
        return reads, writes, []
    if k == "CalibrationDefinition":
        ident = f("identifier")
        reads, writes, caps = regions(fld(td, ident, "CalibrationIdentifier", "parameters")), [], []
        for b in f("instructions"):
            r, w, c = reference(td, b); reads += r; writes += w; caps += c
        return reads, writes, caps
    return [], [], []


def set_eq_names(xs, ys, m):
    return and_all([and_all(or_any(tree_eq(x, y, m) for y in ys) for x in xs), and_all(or_any(tree_eq(x, y, m) for x in xs) for y in ys)])


def oracle(req, td, ins, res, m=None):
    kind = ins[0]
    if not req("resolves", kind, res is not None): return
    reads, writes, caps = reference(td, ins)
    req("reads", kind, set_eq_names(res["reads"], reads, m))
    req("writes", kind, set_eq_names(res["writes"], writes, m))
    req("captures", kind, set_eq_names(res["captures"], caps, m))


class C27(Check):
    id = "C27"
    title = "Reported memory accesses match each instruction's semantics"
    functions = ["<DefaultHandler as InstructionHandler>::memory_accesses", "Call::default_memory_accesses", "MemoryAccesses::union", "WaveformInvocation::memory_references",
                 "Expression::memory_references", "ExternSignatureMap::try_from"]
    assumptions = ["one instruction from 43 templates with region names solver-chosen from {a,b,c} (operands, nested expressions, waveform parameters, CALL arguments)",
                   "the extern signatures of the two CALL targets are built natively once (ExternSignatureMap::try_from) and converted to mirsym values",
                   "reference table written from the statement (reads = consulted regions incl. expressions; writes = assigned; captures = measurement/capture targets; CALL per signature)"]
    outside = ["instructions nested in DEFCIRCUIT / DEFCAL MEASURE bodies beyond the one DEFCAL template", "expressions deeper than in the templates"]
    sample_rate = 4

    def bounds(self, tier):
        return {"templates": [t.name for t in TPLS], "regions": R}

    def setup(self, world, runner, tier):
        self.td = world.td
        parse_templates(runner, world.td, TPLS)
        # the extern signature map as a mirsym value: parse the pragmas natively, run the real try_from in mirsym at path time
        r = runner.call({"op": "extern_signature_map", "program": EXTERNS})
        if "ok" not in r: raise native.NativeError(f"extern signature map: {r}")
        self.sigmap_tree = parse_debug(r["ok"])

    def path(self, m):
        ti = m.choose([(i, None) for i in range(len(TPLS))])
        tpl = TPLS[ti]
        m.ctx = {"tpl": ti}
        sm = from_tree(m.td, self.sigmap_tree, "ExternSignatureMap")
        ins, hv = instantiate(m, tpl, "x_")
        r = m.call_path("<DefaultHandler as InstructionHandler>::memory_accesses", [Ref([Agg("DefaultHandler", None, [])], 0), Ref([sm], 0), Ref([ins], 0)])
        m.force_tag(r)
        res = None
        if r.tag == 0:
            a = r.fields[0]
            names = m.td.structs["MemoryAccesses"]
            res = {k: to_tree(m, a.fields[names.index(k)])[1] for k in ("reads", "writes", "captures")}
        oracle(lambda kk, d, g: m.require(kk, d, g), m.td, to_tree(m, ins), res, m)
        if m._check() == z3.sat:
            zm = m.solver.model()
            mdl = m.model_dict(zm); mdl["_ctx"] = m.ctx
            c = self.case("sample", "", mdl)
            c["result"] = json_tree(eval_tree(res, zm, None)) if res is not None else None
            return c
        return None

    def case(self, kind, detail, model):
        tpl = TPLS[model["_ctx"]["tpl"]]
        return {"instruction": tpl.render(hole_values(tpl, "x_", model)), "kind": kind, "detail": detail}

    def native(self, runner, case):
        r = runner.call({"op": "memory_accesses", "program": EXTERNS, "instructions": [case["instruction"]]})
        if "results" not in r: return None, r
        x = r["results"][0]
        ins = parse_debug(x["instruction"])
        res = None if "err" in x else {k: x[k] for k in ("reads", "writes", "captures")}
        return (ins, res), r

    def confirm(self, runner, case):
        obs, raw = self.native(runner, case)
        if obs is None:
            if "panic" in raw or "crash" in raw: return True, "panic", f"memory_accesses panics: {raw} on {case}"
            return None, "input", str(raw)[:300]
        col = Collect()
        oracle(col, self.td, obs[0], obs[1])
        if not col.failed: return False, "", "native run satisfies the oracle"
        kind, detail = col.failed[0]
        return True, f"{kind}:{detail}", f"{kind} wrong for `{case['instruction']}`: {raw['results'][0]}"

    def validate(self, runner, sample):
        obs, raw = self.native(runner, sample)
        if obs is None: return f"native failed: {raw}"
        a, b = obs[1], sample["result"]
        if (a is None) != (b is None): return f"Ok/Err differs: native {a} mirsym {b}"
        if a is None: return None
        for key in ("reads", "writes", "captures"):
            if sorted(a[key]) != sorted(b[key]): return f"{key} differs for {sample['instruction']!r}: native {sorted(a[key])} mirsym {sorted(b[key])}"
        return None

    def canary(self, runner, tier):
        obs, raw = self.native(runner, {"instruction": "ADD a[0] b[0]"})
        col = Collect()
        oracle(col, self.td, obs[0], {"reads": ["b"], "writes": obs[1]["writes"], "captures": []})
        return True if any(k == "reads" for k, _ in col.failed) else "oracle accepted a missing read"


CHECK = C27()
