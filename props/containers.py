"""Group C — `Program` as a container (C08, C09, C10, C11): templates, reference model, shared driver pieces."""
from common import *
from progscript import run_script, native_script

Q2 = [0, 1]
TPLS = [
    Tpl("declare", "DECLARE {n} BIT[{len}]", n=("str", ["ro", "theta"]), len=("int", [1, 2])),
    Tpl("defframe", 'DEFFRAME {q} "{f}":\n\t{k}: "{d}"', q=("int", Q2), f=("str", ["rf", "ro"]), k=("str", ["DIRECTION", "HARDWARE-OBJECT"]), d=("str", ["tx", "rx"])),
    Tpl("defwaveform", "DEFWAVEFORM {w}(%{p}):\n\t1.0, 2.0", w=("str", ["wa", "wb"]), p=("str", ["x", "y"])),
    Tpl("defcal", "DEFCAL X {q}:\n\tY {b}", q=("int", Q2), b=("int", [0, 1, 2])),
    Tpl("defcalmeasure", "DEFCAL MEASURE {q} {t}:\n\tY {b}", q=("int", Q2), t=("str", ["addr", "dest"]), b=("int", [0, 1, 2])),      # the target name is part of the key (so are the modifiers of a gate calibration, but a second DEFCAL shape is outside this alphabet: one template per instruction variant)
    Tpl("defgate", "DEFGATE {g} AS PERMUTATION:\n\t{a}, {b}", g=("str", ["ga", "gb"]), a=("int", [0, 1]), b=("int", [0, 1])),
    Tpl("defcircuit", "DEFCIRCUIT {c}:\n\tPRAGMA {v}", c=("str", ["ca", "cb"]), v=("str", ["va", "vb"])),
    Tpl("pragma", 'PRAGMA {pn} {e} "{sig}"', pn=("str", ["EXTERN", "OTHER"]), e=("str", ["fa", "fb"]), sig=("str", ["(x : INTEGER)", "(y : REAL)"])),
    Tpl("gate", "X {q}", q=("int", [0, 1, 2])),
    Tpl("measure", "MEASURE {q} ro[0]", q=("int", [0, 1, 2])),
    Tpl("halt", "HALT"),
]
TPL_BY_NAME = {t.name: t for t in TPLS}
DEF_KINDS = ["Pragma", "Declaration", "FrameDefinition", "WaveformDefinition", "CalibrationDefinition", "MeasureCalibrationDefinition",
             "GateDefinition", "CircuitDefinition"]


def kind_of(t):
    return t[0]


def key_of(t):
    """the key under which a definition instruction is stored (tree)"""
    k, p = t[0], t[1][0]
    if k == "Declaration": return p[1][0]
    if k == "FrameDefinition": return p[1][0]
    if k == "WaveformDefinition": return p[1][0]
    if k in ("CalibrationDefinition", "MeasureCalibrationDefinition"): return p[1][0]
    if k in ("GateDefinition", "CircuitDefinition"): return p[1][0]
    if k == "Pragma":
        args = p[1][1]
        if args and args[0][0] == "Identifier": return ("Some", [args[0][1][0]])
        return ("None", [])
    raise KeyError(k)


class Ref_:
    """reference model of Program as a container, over instruction trees.  `decide(cond)` turns a possibly symbolic
    condition into a bool (forking in symbolic mode)."""

    def __init__(self, decide, m=None):
        self.decide, self.m = decide, m
        self.defs = {k: [] for k in DEF_KINDS}      # kind -> [[key, instr tree]] in first-insertion order
        self.body = []

    def is_extern(self, t):
        return t[0] == "Pragma" and self.decide(tree_eq(t[1][0][1][0], "EXTERN", self.m))

    def add(self, t):
        k = t[0]
        if k == "Pragma" and not self.is_extern(t):
            self.body.append(t); return
        if k in self.defs:
            key = key_of(t)
            for e in self.defs[k]:
                if self.decide(tree_eq(e[0], key, self.m)):
                    e[1] = t; return
            self.defs[k].append([key, t]); return
        self.body.append(t)

    def concat(self, other):
        for k in DEF_KINDS:
            for key, t in other.defs[k]:
                for e in self.defs[k]:
                    if self.decide(tree_eq(e[0], key, self.m)):
                        e[1] = t; break
                else:
                    self.defs[k].append([key, t])
        self.body.extend(other.body)

    def listing_by_kind(self):
        return {k: [t for _, t in self.defs[k]] for k in DEF_KINDS}


def split_listing(listing, is_extern):
    """group a listing (list of instruction trees) by definition kind, keeping order; the rest is the body"""
    by = {k: [] for k in DEF_KINDS}
    body = []
    for t in listing:
        if t[0] == "Pragma":
            (by["Pragma"] if is_extern(t) else body).append(t)
        elif t[0] in by: by[t[0]].append(t)
        else: body.append(t)
    return by, body


def check_listing(req, ref, listing, what, m=None, ordered_frames=True):
    """listing must contain exactly the reference definitions (per kind, in first-insertion order) and the body in order"""
    by, body = split_listing(listing, ref.is_extern)
    exp = ref.listing_by_kind()
    for k in DEF_KINDS:
        if not req(f"{what}:count:{k}", "", len(by[k]) == len(exp[k])): continue
        if k == "FrameDefinition" and not ordered_frames:
            req(f"{what}:defs:{k}", "", and_all(or_any(tree_eq(x, y, m) for y in exp[k]) for x in by[k]))
        else:
            req(f"{what}:defs:{k}", "", and_all(tree_eq(x, y, m) for x, y in zip(by[k], exp[k])))
    if req(f"{what}:body-length", "", len(body) == len(ref.body)):
        req(f"{what}:body", "", and_all(tree_eq(x, y, m) for x, y in zip(body, ref.body)))


def normalize_frames(listing):
    """the order of DEFFRAMEs in a native listing is arbitrary (HashMap): sort each contiguous run (JSON trees)"""
    if not isinstance(listing, list): return listing
    out, run = [], []
    for t in listing + [None]:
        if isinstance(t, (list, tuple)) and t and t[0] == "FrameDefinition":
            run.append(t); continue
        if run:
            out.extend(sorted(run, key=lambda x: json.dumps(x, sort_keys=True))); run = []
        if t is not None: out.append(t)
    return out


def sym_instructions(m, n, prefix="i", tpls=TPLS):
    ins = []
    for i in range(n):
        a, kv, holes = sym_instruction(m, tpls, f"{prefix}{i}_")
        ins.append(a)
    return ins


def texts_from_model(td, n, model, prefix="i", tpls=TPLS):
    out = []
    for i in range(n):
        t = concrete_kind(td, tpls, f"{prefix}{i}_", model)
        out.append(t.render(hole_values(t, f"{prefix}{i}_{t.name}_", model)))
    return out


def used_qubits_ref(trees):
    """qubits mentioned by a listing: collects every `Fixed(n)` / `Variable` / placeholder inside `qubits`-typed positions.
    For the template alphabet the qubits are: gate/measure/defcal/defcalmeasure/defframe qubit operands."""
    out = []

    def add(q):
        for x in out:
            if tree_eq(x, q) is True: return
        out.append(q)
    for t in trees:
        k, p = t[0], (t[1][0] if t[1] else None)
        if k == "Gate":
            for q in p[1][2]: add(q)
        elif k == "Measurement":
            add(p[1][1])
        elif k == "CalibrationDefinition":
            for q in p[1][0][1][3]: add(q)          # identifier.qubits
        elif k == "MeasureCalibrationDefinition":
            add(p[1][0][1][1])
        elif k == "FrameDefinition":
            for q in p[1][0][1][1]: add(q)
    return out
