"""C28 — the control-flow graph partitions the body and locates its blocks."""
from common import *

NAMES = ["a", "b"]
TPLS = [
    Tpl("gate", "X {q}", q=("int", [0, 1, 2, 3, 4, 5, 6, 7])),
    Tpl("label", "LABEL @{t}", t=("str", NAMES)),
    Tpl("jump", "JUMP @{t}", t=("str", NAMES)),
    Tpl("jwhen", "JUMP-WHEN @{t} ro[{i}]", t=("str", NAMES), i=("int", [0, 1])),
    Tpl("junless", "JUMP-UNLESS @{t} ro[{i}]", t=("str", NAMES), i=("int", [0, 1])),
    Tpl("halt", "HALT"),
    Tpl("nop", "NOP"),
    Tpl("move", "MOVE ro[{i}] 1", i=("int", [0, 1])),
    Tpl("pragma", "PRAGMA {t}", t=("str", NAMES)),
    Tpl("reset", "RESET"),
    Tpl("wait", "WAIT"),
]
TERMS = ("Jump", "JumpWhen", "JumpUnless", "Halt")


def reference_blocks(body):
    """expected partition of a body (list of instruction trees): list of dicts with body indices"""
    exp, cur_label, cur, start = [], None, [], None
    for idx, ins in enumerate(body):
        k = ins[0]
        if k == "Label":
            if cur or cur_label is not None:
                exp.append({"label": cur_label, "ins": cur, "start": start, "term": None, "closed_by": "label"})
            cur_label, cur, start = idx, [], idx
        elif k in TERMS:
            if start is None: start = idx
            exp.append({"label": cur_label, "ins": cur, "start": start, "term": idx, "closed_by": "terminator"})
            cur_label, cur, start = None, [], None
        else:
            if start is None: start = idx
            cur.append(idx)
    if cur or cur_label is not None:
        exp.append({"label": cur_label, "ins": cur, "start": start, "term": None, "closed_by": "end"})
    return exp


def term_tree(ins):
    """expected BasicBlockTerminator tree for a terminator instruction tree"""
    if ins is None: return ("Continue", [])
    k, (p,) = ins[0], ins[1] if ins[1] else (None,)
    if k == "Halt": return ("Halt", [])
    if k == "Jump": return ("Jump", [p[1][0]])
    # JumpWhen { target, condition } / JumpUnless { target, condition }
    target, cond = p[1][0], p[1][1]
    return ("ConditionalJump", [cond, target, k == "JumpUnless"])


def oracle(req, body, blocks, dynamic, m=None):
    """blocks: list of dicts {label, instructions, offset, terminator, terminator_instruction, terminator_dynamic} of trees"""
    exp = reference_blocks(body)
    if not req("block-count", f"expected {len(exp)} blocks", len(blocks) == len(exp)): return
    any_dyn = False
    for bi, (b, e) in enumerate(zip(blocks, exp)):
        prev = exp[bi - 1] if bi else None
        shape = "first" if prev is None else ("prev-%s-closed-by-%s" % ("labelled" if prev["label"] is not None else "unlabelled", prev["closed_by"]))
        lab = ("None", []) if e["label"] is None else ("Some", [body[e["label"]][1][0][1][0]])
        req("label", shape, tree_eq(b["label"], lab, m))
        ok = len(b["instructions"]) == len(e["ins"])
        req("instruction-count", shape, ok)
        if ok:
            req("instructions", shape, and_all(tree_eq(x, body[i], m) for x, i in zip(b["instructions"], e["ins"])))
        req("offset", shape, tree_eq(b["offset"], e["start"], m))
        ti = None if e["term"] is None else body[e["term"]]
        req("terminator", shape, tree_eq(b["terminator"], term_tree(ti), m))
        req("terminator-instruction", shape, tree_eq(b["terminator_instruction"], ("None", []) if ti is None else ("Some", [ti]), m))
        isdyn = ti is not None and ti[0] in ("JumpWhen", "JumpUnless")
        req("terminator-dynamic", shape, tree_eq(b["terminator_dynamic"], isdyn, m))
        any_dyn = any_dyn or isdyn
    req("dynamic-flag", "", tree_eq(dynamic, any_dyn, m))


class C28(Check):
    id = "C28"
    title = "The control-flow graph partitions the body and locates its blocks"
    functions = ["<ControlFlowGraph as From<&Program>>::from", "ControlFlowGraph::has_dynamic_control_flow", "ControlFlowGraph::into_blocks",
                 "BasicBlock::{label,instructions,instruction_index_offset,terminator}", "BasicBlockTerminator::{is_dynamic,into_instruction}",
                 "Program::new", "Program::add_instruction"]
    assumptions = ["instruction values are produced by natively parsing templates; their operands (names, indices, qubits) are solver variables",
                   "library models: Vec, slice iteration, Option, mem::take, HashSet<Qubit> (used-qubit cache)"]
    outside = ["INCLUDE in the body (excepted by the statement)", "bodies longer than the bound", "instruction kinds outside the template alphabet are covered "
               "only through the match-arm grouping of the CFG builder (all ordinary kinds share one arm)"]
    N = {"quick": 4, "thorough": 5}
    sample_rate = 16

    def bounds(self, tier):
        return {"body_length": f"<= {self.N[tier]}", "instruction_kinds": [t.name for t in TPLS], "label_names": NAMES,
                "operands": "label names, qubit and memory indices are solver variables"}

    def setup(self, world, runner, tier):
        parse_templates(runner, world.td, TPLS)

    def path(self, m):
        n_max = self.N[m.tier]
        n = m.choose([(k, None) for k in range(1, n_max + 1)])
        prog = m.call_path("Program::new", [])
        cell = [prog]
        for i in range(n):
            ins, kv, holes = sym_instruction(m, TPLS, f"i{i}_")
            m.call_path("Program::add_instruction", [Ref(cell, 0), ins])
        g = m.call_path("<ControlFlowGraph<'_> as From<&Program>>::from", [Ref(cell, 0)])
        gcell = [g]
        dynamic = m.call_path("ControlFlowGraph::has_dynamic_control_flow", [Ref(gcell, 0)])
        dynamic = m.branch_bool(dynamic)
        blocks_v = m.call_path("ControlFlowGraph::into_blocks", [g])
        body = [to_tree(m, x) for x in m.call_path("Program::body_instructions", [Ref(cell, 0)]).drain(m)] if False else \
               [to_tree(m, x) for x in cell[0].fields[m.td.structs["Program"].index("instructions")].items]
        blocks = []
        for b in blocks_v.items:
            bc = [b]
            term_ref = m.call_path("BasicBlock::terminator", [Ref(bc, 0)])
            term = deref(term_ref)
            blocks.append({
                "label": to_tree(m, m.call_path("BasicBlock::label", [Ref(bc, 0)])),
                "instructions": to_tree(m, m.call_path("BasicBlock::instructions", [Ref(bc, 0)])),
                "offset": m.call_path("BasicBlock::instruction_index_offset", [Ref(bc, 0)]),
                "terminator": to_tree(m, term),
                "terminator_dynamic": m.branch_bool(m.call_path("BasicBlockTerminator::is_dynamic", [term_ref])),
                "terminator_instruction": to_tree(m, m.call_path("BasicBlockTerminator::into_instruction", [deep_clone(term)])),
            })
        oracle(lambda k, d, g_: m.require(k, d, g_), body, blocks, dynamic, m)
        # sample for translator validation
        if m.want_sample() and m._check() == z3.sat:
            zm = m.solver.model()
            mdl = m.model_dict(zm)
            return {"n": n, "model": mdl, "text": self.text(n, mdl), "blocks": json_tree(eval_tree(blocks, zm, None)), "dynamic": dynamic}
        return None

    def text(self, n, model):
        lines = ["DECLARE ro BIT[2]"]
        for i in range(n):
            t = concrete_kind(self.world_td, TPLS, f"i{i}_", model)
            lines.append(t.render(hole_values(t, f"i{i}_{t.name}_", model)))
        return "\n".join(lines)

    def setup(self, world, runner, tier):
        self.world_td = world.td
        parse_templates(runner, world.td, TPLS)

    def case(self, kind, detail, model):
        n = 0
        while f"i{n}_kind" in model: n += 1
        return {"op": "cfg", "text": self.text(n, model), "kind": kind, "detail": detail}

    def native_obs(self, runner, text):
        r = runner.call({"op": "cfg", "text": text})
        if "blocks" not in r: return None, r
        body = [parse_debug(x) for x in r["body"]]
        blocks = [{"label": parse_debug(b["label"]), "instructions": [parse_debug(x) for x in b["instructions"]], "offset": b["offset"],
                   "terminator": parse_debug(b["terminator"]), "terminator_dynamic": b["terminator_dynamic"],
                   "terminator_instruction": parse_debug(b["terminator_instruction"])} for b in r["blocks"]]
        return (body, blocks, r["dynamic"]), r

    def confirm(self, runner, case):
        obs, raw = self.native_obs(runner, case["text"])
        if obs is None:
            if "panic" in raw or "crash" in raw: return True, "panic", f"ControlFlowGraph::from panics on {case['text']!r}: {raw}"
            return False, "input", str(raw)
        col = Collect()
        oracle(col, obs[0], obs[1], obs[2])
        if not col.failed: return False, "", "native run satisfies the oracle"
        kind, shape = col.failed[0]
        return True, f"{kind}:{shape}", f"{kind} wrong ({shape}) for body {case['text']!r}: blocks={raw['blocks']}"

    def validate(self, runner, sample):
        obs, raw = self.native_obs(runner, sample["text"])
        if obs is None: return f"native run failed: {raw}"
        nat = json_tree(obs[1])
        if nat != sample["blocks"]:
            return "blocks differ: " + str(tree_diff(nat, sample["blocks"]))
        if obs[2] != sample["dynamic"]: return "dynamic flag differs"
        return None

    def canary(self, runner, tier):
        # a deliberately wrong expectation must be reported by the concrete oracle (the oracle is not vacuous)
        obs, raw = self.native_obs(runner, "X 0\nJUMP @a\nLABEL @a\nHALT")
        if obs is None: return f"canary input failed natively: {raw}"
        col = Collect()
        bad = [dict(b) for b in obs[1]]
        bad[1]["offset"] = bad[1]["offset"] + 1
        oracle(col, obs[0], bad, obs[2])
        return True if any(k == "offset" for k, _ in col.failed) else "oracle accepted a wrong offset"


CHECK = C28()
