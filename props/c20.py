"""C20 — gate-sequence expansion substitutes correctly and keeps needed definitions (driver in seqexp.py)."""
from seqexp import *


class C20(SeqCheck):
    id = "C20"
    prop = "C20"
    title = "Gate-sequence expansion substitutes correctly and keeps needed definitions"


CHECK = C20()
