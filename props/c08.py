"""C08 — serialization is deterministic and keeps definition order.

The iteration order of every `HashMap` *instance* is a solver-chosen permutation (independent per instance: std gives
every map its own RandomState, and another process another seed).  Two programs built from the same sequence must list
identically, and in the reference order."""
import itertools
from containers import *

TP = [t for t in TPLS if t.name not in ("measure", "halt")]


def hash_policy(m, mp):
    if isinstance(mp, SetObj): return list(range(len(mp.items)))
    n = len(mp.items)
    key = (mp.uid, n)
    if key not in m.hash_orders:
        perms = list(itertools.permutations(range(n))) if n <= 3 else [tuple(range(n)), tuple(reversed(range(n))), tuple(range(1, n)) + (0,)]
        m.hash_orders[key] = list(m.choose([(p, None) for p in perms]))
        m.world.count("hash_permutation_choices")
    return m.hash_orders[key]


def oracle(req, decide, seq, k, obs, m=None, sets_only=False):
    l1, l2, s1, s2 = obs
    if req("same-build:length", "", len(l1) == len(l2)):
        for x, y in zip(l1, l2):
            if not req("same-build:listing", x[0], tree_eq(x, y, m)): break
    if req("concat-build:length", "", len(s1) == len(s2)):
        for x, y in zip(s1, s2):
            if not req("concat-build:listing", x[0], tree_eq(x, y, m)): break
    ref = Ref_(decide, m)
    for t in seq: ref.add(t)
    check_listing(req, ref, l1, "order", m)
    ra, rb = Ref_(decide, m), Ref_(decide, m)
    for t in seq[:k]: ra.add(t)
    for t in seq[k:]: rb.add(t)
    ra.concat(rb)
    check_listing(req, ra, s1, "concat-order", m)


class C08(Check):
    id = "C08"
    title = "Serialization is deterministic and keeps definition order"
    functions = ["Program::from_instructions", "Program::add_instruction", "Program::to_instructions", "FrameSet::{insert,merge,to_instructions}",
                 "Calibrations::{insert_calibration,insert_measurement_calibration,extend,to_instructions}", "CalibrationSet::replace", "ExternPragmaMap::{insert,extend,to_instructions}",
                 "<Program as Add>::add", "<Program as AddAssign>::add_assign"]
    assumptions = ["HashMap iteration order: an arbitrary permutation per map instance (all n! for n <= 3, three orders above), fixed while the map is unchanged; clones keep it",
                   "HashSet<Qubit> (used-qubit cache) iteration order does not reach the listing and is kept in insertion order",
                   "the per-instruction printers contain no unordered container (FrameAttributes is an IndexMap): equal listings print to equal text"]
    outside = ["sequences longer than the bound", "text rendering of each instruction (C02/C04)"]
    N = {"quick": 3, "thorough": 4}
    sample_rate = 128
    max_paths = {"quick": 150000, "thorough": 3000000}

    def bounds(self, tier):
        return {"sequence_length": f"<= {self.N[tier]}", "templates": [t.name for t in TP], "hash_orders": "all permutations for <= 3 entries"}

    def setup(self, world, runner, tier):
        self.td = world.td
        parse_templates(runner, world.td, TP)

    def script(self, n, k):
        a, b = list(range(k)), list(range(k, n))
        return [["from", "p1", list(range(n))], ["from", "p2", list(range(n))],
                ["from", "a1", a], ["from", "b1", b], ["add", "s1", "a1", "b1"], ["from", "a2", a], ["from", "b2", b], ["add", "s2", "a2", "b2"],
                ["to_instructions", "p1"], ["to_instructions", "p2"], ["to_instructions", "s1"], ["to_instructions", "s2"]]

    def path(self, m):
        m.hash_policy = hash_policy
        n = m.choose([(k, None) for k in range(1, self.N[m.tier] + 1)])
        k = m.choose([(j, None) for j in range(0, n + 1)])
        ins = sym_instructions(m, n, "i", TP)
        obs = run_script(m, self.script(n, k), ins)
        seq = [to_tree(m, x) for x in ins]
        oracle(lambda kk, d, g: m.require(kk, d, g), m.branch_bool, seq, k, obs, m)
        if m.want_sample() and m._check() == z3.sat:
            mdl = m.model_dict(m.solver.model())
            return {"n": n, "k": k, "texts": texts_from_model(self.td, n, mdl, "i", TP)}
        return None

    def case(self, kind, detail, model):
        n = 0
        while f"i{n}_kind" in model: n += 1
        return {"n": n, "k": n // 2, "texts": texts_from_model(self.td, n, model, "i", TP), "kind": kind}

    def confirm(self, runner, case):
        # nondeterminism needs many builds: the runner builds the program 64 times per process, in 4 processes
        distinct, listings = set(), {}
        for rep in range(4):
            r = runner.call({"op": "determinism", "texts": case["texts"], "n": 64})
            if "distinct" not in r:
                if "panic" in r or "crash" in r: return True, "panic", f"panics on {case['texts']}: {r}"
                return False, "input", str(r)[:300]
            for s, l in zip(r["distinct"], r["listings"]):
                distinct.add(s); listings[s] = l
            runner.close()
        if len(distinct) > 1:
            kinds = set()
            ls = [[parse_debug(x) for x in l] for l in listings.values()]
            for x, y in zip(ls[0], ls[1]):
                if tree_eq(x, y) is not True: kinds.add(x[0])
            return True, "nondeterministic-order:" + "+".join(sorted(kinds)), f"{len(distinct)} different serializations of the same instruction sequence {case['texts']}: {sorted(distinct)[:2]}"
        # deterministic: check the reference order
        r = runner.call({"op": "parse_instructions", "texts": case["texts"]})
        seq = [parse_debug(x["ok"][0]) for x in r["results"]]
        obs, raw = native_script(runner, self.script(case["n"], case["k"]), case["texts"])
        if obs is None: return False, "input", str(raw)[:300]
        col = Collect()
        oracle(col, bool, seq, case["k"], obs)
        if not col.failed: return False, "", "native run satisfies the oracle"
        kind, detail = col.failed[0]
        return True, kind, f"{kind} {detail} fails for {case['texts']}: listing={raw['out'][0]}"

    def validate(self, runner, sample):
        # the native order of hash containers is not controllable; validation of the container model is done by C09/C11
        return "skip"

    def canary(self, runner, tier):
        r = runner.call({"op": "parse_instructions", "texts": ["DECLARE ro BIT[1]", "DECLARE theta BIT[1]"]})
        seq = [parse_debug(x["ok"][0]) for x in r["results"]]
        col = Collect()
        rev = list(reversed(seq))
        oracle(col, bool, seq, 1, [rev, rev, rev, rev])
        return True if any(k.startswith("order") for k, _ in col.failed) else "oracle accepted a reordered listing"


CHECK = C08()
