"""C21 — the gate-sequence source map matches the expansion (driver in seqexp.py)."""
from seqexp import *


class C21(SeqCheck):
    id = "C21"
    prop = "C21"
    title = "The gate-sequence source map matches the expansion"


CHECK = C21()
