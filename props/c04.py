"""C04 (one clause) — serialization fails with an unresolved-placeholder error exactly when a placeholder is present, and the debug
serializer never fails.  The round-trip clauses of C04 need the lexer and are not covered (see DESIGN.md 9.1)."""
from common import *
from c34 import mk_qubit, mk_target

KINDS = ["gate1", "gate2", "measure", "measure-to", "fence", "reset", "label", "jump", "jumpwhen", "jumpunless"]
ARITY = {"gate1": 1, "gate2": 2, "measure": 1, "measure-to": 1, "fence": 2, "reset": 1}
LABELS = ["a", "b"]
NPH = 2


def struct(td, sname, /, **kw):
    a = Agg(sname, None, [None] * len(td.structs[sname]))
    for k, v in kw.items(): a.fields[td.structs[sname].index(k)] = v
    return a


def mk_instruction(m, td, k, qs, t):
    I = td.enums["Instruction"]
    ins = lambda variant, payload: Agg("Instruction", I.index(variant), [payload])
    q = [mk_qubit(m, td, x) for x in qs]
    ro = lambda: struct(td, "MemoryReference", name=Str("ro"), index=0)
    if k in ("gate1", "gate2"): return ins("Gate", struct(td, "Gate", name=Str("X"), parameters=VecObj(), qubits=VecObj(q), modifiers=VecObj()))
    if k == "measure": return ins("Measurement", struct(td, "Measurement", name=NONE(), qubit=q[0], target=NONE()))
    if k == "measure-to": return ins("Measurement", struct(td, "Measurement", name=NONE(), qubit=q[0], target=SOME(ro())))
    if k == "fence": return ins("Fence", struct(td, "Fence", qubits=VecObj(q)))
    if k == "reset": return ins("Reset", struct(td, "Reset", qubit=SOME(q[0])))
    if k == "label": return ins("Label", struct(td, "Label", target=mk_target(m, td, t)))
    if k == "jump": return ins("Jump", struct(td, "Jump", target=mk_target(m, td, t)))
    if k == "jumpwhen": return ins("JumpWhen", struct(td, "JumpWhen", target=mk_target(m, td, t), condition=ro()))
    return ins("JumpUnless", struct(td, "JumpUnless", target=mk_target(m, td, t), condition=ro()))


def expected(spec_item):
    """set of error variants the serializer may report for one instruction ({} = must succeed)"""
    k, qs, t = spec_item
    out = set()
    if any(q[0] == "ph" for q in qs): out.add("UnresolvedQubitPlaceholder")
    if t is not None and t[0] == "ph": out.add("UnresolvedLabelPlaceholder")
    return out


def oracle(req, spec, per, prog):
    """per: [{"to_quil": ("ok",) | ("err", variant), "or_debug": True}], prog likewise"""
    all_exp = set()
    for (k, qs, t), o in zip(spec, per):
        exp = expected((k, qs, t))
        all_exp |= exp
        r = o["to_quil"]
        if exp:
            if req("placeholder-rejected", k, r[0] == "err"):
                req("placeholder-error-kind", k, r[1] in exp)
        else:
            req("no-placeholder-serializes", k, r[0] == "ok")
        req("debug-serializer-never-fails", k, o["or_debug"] is True)
    r = prog["to_quil"]
    if all_exp:
        if req("placeholder-rejected", "program", r[0] == "err"):
            req("placeholder-error-kind", "program", r[1] in all_exp)
    else:
        req("no-placeholder-serializes", "program", r[0] == "ok")
    req("debug-serializer-never-fails", "program", prog["or_debug"] is True)


def variant_of(text):
    for v in ("UnresolvedQubitPlaceholder", "UnresolvedLabelPlaceholder", "FormatError"):
        if v in text: return v
    return text[:40]


class C04(Check):
    id = "C04"
    title = "Programs built through the API serialize to text that parses back (placeholder clause only)"
    functions = ["<Instruction as Quil>::{to_quil,to_quil_or_debug,write}", "<Program as Quil>::{to_quil,to_quil_or_debug,write}", "<Qubit as Quil>::write", "<Target as Quil>::write",
                 "<Gate as Quil>::write", "<Measurement as Quil>::write", "<Fence as Quil>::write", "<Reset as Quil>::write", "<Label as Quil>::write", "<Jump as Quil>::write",
                 "<JumpWhen as Quil>::write", "<JumpUnless as Quil>::write", "write_join_quil"]
    assumptions = ["bodies of <= N instructions built from the public structs: one- and two-qubit gates, MEASURE with and without a target, FENCE, RESET q, LABEL, JUMP, JUMP-WHEN, "
                   "JUMP-UNLESS; every qubit a solver-chosen u64 or one of 2 placeholders, every target a fixed label or one of 2 placeholders",
                   "core::fmt is a library model (format templates are decoded from the MIR constants)"]
    outside = ["every other clause of C04 (the serialized text parses back to an equivalent program): needs the lexer, not covered", "instruction kinds outside the list", "more than N instructions"]
    N = {"quick": 2, "thorough": 3}
    sample_rate = 8
    max_paths = {"quick": 600000, "thorough": 8000000}

    def bounds(self, tier):
        return {"instructions": f"<= {self.N[tier]}", "kinds": KINDS, "fixed_qubits": "all u64", "labels": LABELS, "placeholders": NPH}

    def setup(self, world, runner, tier):
        self.td = world.td

    def path(self, m):
        td = m.td
        m.opaque_symbolic_fmt = True          # only Ok / Err of the serializers is observed, not the digits of a symbolic qubit index
        n = m.choose([(k, None) for k in range(1, self.N[m.tier] + 1)])
        qph = [Agg("QubitPlaceholder", None, [Agg("Arc", None, [UNIT])]) for _ in range(NPH)]
        tph = [Agg("TargetPlaceholder", None, [Agg("Arc", None, [Str("base")])]) for _ in range(NPH)]
        spec, cspec, body = [], [], []
        nq = 0
        for i in range(n):
            k = m.choose([(x, None) for x in KINDS])
            qs, cq = [], []
            for j in range(ARITY.get(k, 0)):
                c = m.choose([("fixed", None)] + [(("ph", p), None) for p in range(NPH)])
                if c == "fixed":
                    v = m.fresh_bv(f"q{nq}", 64)
                    qs.append(("fixed", v)); cq.append(["fixed", f"q{nq}"]); nq += 1
                else:
                    qs.append(("ph", c[1], qph[c[1]])); cq.append(["ph", c[1]])
            t, ct = None, None
            if k in ("label", "jump", "jumpwhen", "jumpunless"):
                c = m.choose([("fixed", None)] + [(("ph", p), None) for p in range(NPH)])
                if c == "fixed":
                    t = ("fixed", Str(None, m.fresh_int(f"l{i}", 0, len(LABELS)), LABELS)); ct = ["fixed", f"l{i}"]
                else:
                    t = ("ph", c[1], "base", tph[c[1]]); ct = ["ph", c[1], "base"]
            spec.append((k, qs, t)); cspec.append([k, cq, ct])
            body.append(mk_instruction(m, td, k, qs, t))
        m.ctx = {"spec": cspec}
        prog = m.call_path("Program::new", [])
        cell = [prog]
        for ins in body: m.call_path("Program::add_instruction", [Ref(cell, 0), deep_clone(ins)])

        def observe(path_ty, ref):
            r = m.call_path(f"<{path_ty} as Quil>::to_quil", [ref])
            m.force_tag(r)
            tq = ("ok",) if r.tag == 0 else ("err", to_tree(m, r.fields[0])[0])
            d = m.call_path(f"<{path_ty} as Quil>::to_quil_or_debug", [ref])
            # "never fails": the debug writer itself must report success (to_quil_or_debug swallows an error and returns what was written so far)
            buf = [Str("")]
            w = m.call_path(f"<{path_ty} as Quil>::write::<String>", [ref, Ref(buf, 0), True])
            m.force_tag(w)
            return {"to_quil": tq, "or_debug": isinstance(deref(d), (Str, StrBuf)) and w.tag == 0}
        per = [observe("Instruction", Ref(body, i)) for i in range(n)]
        pr = observe("Program", Ref(cell, 0))
        oracle(lambda kk, d, g: m.require(kk, d, g), spec, per, pr)
        if m.want_sample() and m._check() == z3.sat:
            zm = m.solver.model()
            mdl = m.model_dict(zm); mdl["_ctx"] = m.ctx
            c = self.case("sample", "", mdl)
            c["verdicts"] = [list(o["to_quil"]) for o in per] + [list(pr["to_quil"])]
            return c
        return None

    def case(self, kind, detail, model):
        spec = []
        for k, cq, ct in model["_ctx"]["spec"]:
            item = {"kind": {"gate1": "gate", "gate2": "gate"}.get(k, k)}
            if cq: item["qubits"] = [["fixed", model.get(q[1], 0)] if q[0] == "fixed" else ["ph", q[1]] for q in cq]
            if ct: item["target"] = ["fixed", LABELS[model.get(ct[1], 0)]] if ct[0] == "fixed" else ["ph", ct[1], ct[2]]
            spec.append(item)
        return {"spec": spec, "kinds": [k for k, _, _ in model["_ctx"]["spec"]], "kind": kind, "detail": detail}

    def native(self, runner, case):
        r = runner.call({"op": "placeholders", "spec": case["spec"], "quil_only": True})
        if "instructions" not in r: return None, r
        conv = lambda o: {"to_quil": ("ok",) if "ok" in o["to_quil"] else ("err", variant_of(o["to_quil"]["err"])), "or_debug": isinstance(o["or_debug"], str) and o.get("debug_write_ok") is True}
        return ([conv(o) for o in r["instructions"]], conv(r["program"])), r

    def confirm(self, runner, case):
        obs, raw = self.native(runner, case)
        if obs is None:
            if "panic" in raw or "crash" in raw: return True, "panic", f"serialization panics on {case['spec']}: {raw}"
            return None, "input", str(raw)[:300]
        spec = [(k, [tuple(q) for q in item.get("qubits", [])], (tuple(item["target"]) if "target" in item else None)) for k, item in zip(case["kinds"], case["spec"])]
        col = Collect()
        oracle(col, spec, obs[0], obs[1])
        if not col.failed: return False, "", "native run satisfies the oracle"
        kind, detail = col.failed[0]
        return True, f"{kind}:{detail}", f"{kind} ({detail}) fails for {case['spec']}: {raw['instructions']} program {raw['program']['to_quil']}"

    def validate(self, runner, sample):
        obs, raw = self.native(runner, sample)
        if obs is None: return f"native failed: {raw}"
        nat = [list(o["to_quil"]) for o in obs[0]] + [list(obs[1]["to_quil"])]
        if nat != sample["verdicts"]: return f"verdicts differ on {sample['spec']}: native {nat} mirsym {sample['verdicts']}"
        return None

    def canary(self, runner, tier):
        case = {"spec": [{"kind": "gate", "qubits": [["ph", 0]]}], "kinds": ["gate1"]}
        obs, raw = self.native(runner, case)
        if obs is None: return f"canary input failed: {raw}"
        col = Collect()
        obs[0][0]["to_quil"] = ("ok",)          # pretend the placeholder was printed
        oracle(col, [("gate1", [("ph", 0)], None)], obs[0], obs[1])
        return True if any(k == "placeholder-rejected" for k, _ in col.failed) else "oracle accepted a serialized placeholder"


CHECK = C04()
