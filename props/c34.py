"""C34 — placeholder resolution assigns unique, consistent values."""
from common import *
from c26 import fld

KINDS = ["gate2", "measure", "rawcapture", "label", "jump", "jumpwhen"]
LABELS = ["a_0", "a_1", "a", "b_0"]
BASES = ["a", "b"]
NPH = 2


def mk_qubit(m, td, spec):
    if spec[0] == "fixed": return Agg("Qubit", td.enums["Qubit"].index("Fixed"), [spec[1]])
    return Agg("Qubit", td.enums["Qubit"].index("Placeholder"), [spec[2]])


def mk_target(m, td, spec):
    if spec[0] == "fixed": return Agg("Target", td.enums["Target"].index("Fixed"), [spec[1]])
    return Agg("Target", td.enums["Target"].index("Placeholder"), [spec[3]])


def oracle(req, td, spec, before, after, custom=None, m=None):
    """spec: per instruction (kind, [qubit specs], target spec) with concrete placeholder ids; before/after: body trees"""
    if not req("body-length", "", len(after) == len(before)): return
    qres, tres = {}, {}          # placeholder id -> resolved value tree
    fixed_q = [q[1] for k, qs, t in spec for q in qs if q[0] == "fixed"]
    fixed_t = [t[1] for k, qs, t in spec if t is not None and t[0] == "fixed"]
    for (k, qs, t), a in zip(spec, after):
        p = a[1][0] if a[1] else None
        if qs:
            got = (fld(td, p, a[0], "qubits") if a[0] in ("Gate", "Fence") else
                   fld(td, fld(td, p, "RawCapture", "frame"), "FrameIdentifier", "qubits") if a[0] == "RawCapture" else [fld(td, p, "Measurement", "qubit")])
            if not req("qubit-count", k, len(got) == len(qs)): continue
            for q, g in zip(qs, got):
                if q[0] == "fixed":
                    req("fixed-qubit-unchanged", k, tree_eq(g, ("Fixed", [q[1]]), m))
                    continue
                will = custom is None or str(q[1]) in custom["qubits"]
                if not will:
                    req("unresolved-stays-placeholder", k, g[0] == "Placeholder")
                    continue
                if not req("qubit-placeholder-replaced", k, g[0] == "Fixed"): continue
                if custom is not None: req("custom-qubit-value", k, tree_eq(g[1][0], custom["qubits"][str(q[1])], m))
                if q[1] in qres: req("qubit-consistent", k, tree_eq(qres[q[1]], g, m))
                else: qres[q[1]] = g
        if t is not None:
            g = fld(td, p, a[0], "target")
            if t[0] == "fixed":
                req("fixed-target-unchanged", k, tree_eq(g, ("Fixed", [t[1]]), m))
                continue
            will = custom is None or str(t[1]) in custom["targets"]
            if not will:
                req("unresolved-stays-placeholder", k, g[0] == "Placeholder")
                continue
            if not req("target-placeholder-replaced", k, g[0] == "Fixed"): continue
            if custom is not None: req("custom-target-value", k, tree_eq(g[1][0], custom["targets"][str(t[1])], m))
            if t[1] in tres: req("target-consistent", k, tree_eq(tres[t[1]], g, m))
            else: tres[t[1]] = g
    if custom is not None: return
    ids = sorted(qres)
    for i in range(len(ids)):
        for j in range(i + 1, len(ids)):
            req("qubits-distinct", "", neg(tree_eq(qres[ids[i]], qres[ids[j]], m)))
    for i in ids:
        for f in fixed_q: req("qubit-not-a-used-fixed-qubit", "", neg(tree_eq(qres[i][1][0], f, m)))
    ids = sorted(tres)
    for i in range(len(ids)):
        for j in range(i + 1, len(ids)):
            req("targets-distinct", "", neg(tree_eq(tres[ids[i]], tres[ids[j]], m)))
    for i in ids:
        for f in fixed_t: req("target-not-an-existing-label", "", neg(tree_eq(tres[i][1][0], f, m)))


class C34(Check):
    id = "C34"
    title = "Placeholder resolution assigns unique, consistent values"
    functions = ["Program::{resolve_placeholders,resolve_placeholders_with_custom_resolvers,default_target_resolver,default_qubit_resolver,get_targets,rebuild_used_qubits}",
                 "Instruction::{resolve_placeholders,get_qubits,get_qubits_mut}", "Qubit::resolve_placeholder", "Target::resolve_placeholder",
                 "<QubitPlaceholder as PartialEq>::eq", "<TargetPlaceholder as PartialEq>::eq (by address)"]
    assumptions = ["bodies of <= N instructions (1-/2-qubit gates, MEASURE, FENCE, LABEL, JUMP, JUMP-WHEN); each qubit is a solver-chosen 64-bit fixed index or one of 3 placeholders, "
                   "each target a fixed label from {a_0,a_1,a,b_0} or one of 3 placeholders with base a / b", "placeholder identity = address of the shared Arc allocation (modelled by first-seen numbering)",
                   "custom resolvers: a solver-chosen subset of the placeholders gets values"]
    outside = ["bodies longer than N", "placeholders inside calibration / circuit definitions"]
    N = {"quick": 2, "thorough": 3}
    sample_rate = 16
    max_paths = {"quick": 800000, "thorough": 8000000}

    def bounds(self, tier):
        return {"instructions": f"<= {self.N[tier]} (any kind), {self.N[tier] + 1} (LABEL / JUMP only)", "kinds": KINDS, "fixed_qubits": "all u64", "labels": LABELS, "placeholders": NPH}

    def setup(self, world, runner, tier):
        self.td = world.td

    def path(self, m):
        td = m.td
        N = self.N[m.tier]
        # one more instruction when every instruction is a LABEL / JUMP (two placeholders of one base plus a colliding fixed label need three)
        n = m.choose([(k, None) for k in range(1, N + 2)])
        kinds = KINDS if n <= N else ["label", "jump"]
        qph = [Agg("QubitPlaceholder", None, [Agg("Arc", None, [UNIT])]) for _ in range(NPH)]
        tph = {}
        spec, body = [], []
        nq = 0
        for i in range(n):
            k = m.choose([(x, None) for x in kinds])
            qs, t = [], None
            arity = {"gate1": 1, "gate2": 2, "measure": 1, "fence": 2, "rawcapture": 1}.get(k, 0)
            for j in range(arity):
                c = m.choose([("fixed", None)] + [(("ph", p), None) for p in range(NPH)])
                if c == "fixed":
                    v = m.fresh_bv(f"q{nq}", 64); nq += 1
                    qs.append(("fixed", v))
                else:
                    qs.append(("ph", c[1], qph[c[1]]))
            if k in ("label", "jump", "jumpwhen"):
                c = m.choose([("fixed", None)] + [(("ph", p), None) for p in range(NPH)])
                if c == "fixed":
                    t = ("fixed", Str(None, m.fresh_int(f"l{i}", 0, len(LABELS)), LABELS))
                else:
                    pid = c[1]
                    if pid not in tph:
                        base = m.choose([(b, None) for b in BASES])
                        tph[pid] = (base, Agg("TargetPlaceholder", None, [Agg("Arc", None, [Str(base)])]))
                    t = ("ph", pid, tph[pid][0], tph[pid][1])
            spec.append((k, qs, t))
            if k in ("gate1", "gate2"):
                ins = Agg("Instruction", td.enums["Instruction"].index("Gate"), [Agg("Gate", None, [None] * 4)])
                g = ins.fields[0]
                for name, val in (("name", Str("X")), ("parameters", VecObj()), ("qubits", VecObj([mk_qubit(m, td, q) for q in qs])), ("modifiers", VecObj())):
                    g.fields[td.structs["Gate"].index(name)] = val
            elif k == "measure":
                ins = Agg("Instruction", td.enums["Instruction"].index("Measurement"), [Agg("Measurement", None, [None] * 3)])
                g = ins.fields[0]
                for name, val in (("name", NONE()), ("qubit", mk_qubit(m, td, qs[0])), ("target", NONE())): g.fields[td.structs["Measurement"].index(name)] = val
            elif k == "fence":
                ins = Agg("Instruction", td.enums["Instruction"].index("Fence"), [Agg("Fence", None, [VecObj([mk_qubit(m, td, q) for q in qs])])])
            elif k == "rawcapture":
                def st(sname, **kw):
                    a = Agg(sname, None, [None] * len(td.structs[sname]))
                    for kk, v in kw.items(): a.fields[td.structs[sname].index(kk)] = v
                    return a
                frame = st("FrameIdentifier", name=Str("rx"), qubits=VecObj([mk_qubit(m, td, q) for q in qs]))
                num = Agg("Expression", td.enums["Expression"].index("Number"), [Agg("Complex", None, [1.0, 0.0])])
                rc = st("RawCapture", blocking=True, frame=frame, duration=num, memory_reference=Agg("MemoryReference", None, [Str("ro"), 0]))
                ins = Agg("Instruction", td.enums["Instruction"].index("RawCapture"), [rc])
            elif k == "label":
                ins = Agg("Instruction", td.enums["Instruction"].index("Label"), [Agg("Label", None, [mk_target(m, td, t)])])
            elif k == "jump":
                ins = Agg("Instruction", td.enums["Instruction"].index("Jump"), [Agg("Jump", None, [mk_target(m, td, t)])])
            else:
                jw = Agg("JumpWhen", None, [None, None])
                jw.fields[td.structs["JumpWhen"].index("target")] = mk_target(m, td, t)
                jw.fields[td.structs["JumpWhen"].index("condition")] = Agg("MemoryReference", None, [Str("ro"), 0])
                ins = Agg("Instruction", td.enums["Instruction"].index("JumpWhen"), [jw])
            body.append(ins)
        mode = m.choose([("default", None), ("custom", None)])
        cspec = lambda: [(k, [(q[0], q[1]) for q in qs], (None if t is None else (t[0], t[1], t[2]) if t[0] == "ph" else (t[0], t[1]))) for k, qs, t in spec]
        m.ctx = {"mode": mode, "nspec": None}
        prog = m.call_path("Program::new", [])
        cell = [prog]
        for ins in body: m.call_path("Program::add_instruction", [Ref(cell, 0), ins])
        pidx = td.structs["Program"].index("instructions")
        before = [to_tree_ph(m, x) for x in cell[0].fields[pidx].items]
        custom = None
        if mode == "default":
            m.call_path("Program::resolve_placeholders", [Ref(cell, 0)])
        else:
            used_q = sorted({q[1] for k, qs, t in spec for q in qs if q[0] == "ph"})
            used_t = sorted({t[1] for k, qs, t in spec if t is not None and t[0] == "ph"})
            custom = {"qubits": {}, "targets": {}}
            for p in used_q:
                if m.choose([(True, None), (False, None)]): custom["qubits"][str(p)] = 100 + p
            for p in used_t:
                if m.choose([(True, None), (False, None)]): custom["targets"][str(p)] = f"custom_{p}"

            def qres(mm, r):
                ph = deref(r)
                for p, v in custom["qubits"].items():
                    if ph.fields[0] is qph[int(p)].fields[0]: return SOME(v)
                return NONE()

            def tres(mm, r):
                ph = deref(r)
                for p, v in custom["targets"].items():
                    if ph.fields[0] is tph[int(p)][1].fields[0]: return SOME(Str(v))
                return NONE()
            m.call_path("Program::resolve_placeholders_with_custom_resolvers", [Ref(cell, 0), PyFn(tres, "target_resolver"), PyFn(qres, "qubit_resolver")])
        after = [to_tree_ph(m, x) for x in cell[0].fields[pidx].items]
        ospec = [(k, [(q[0], q[1]) for q in qs], (None if t is None else (t[0], t[1]))) for k, qs, t in spec]
        m.ctx = {"mode": mode, "spec": [[k, [[q[0], (f"q{self.qname(m, q[1])}" if q[0] == "fixed" else q[1])] for q in qs], (None if t is None else ([t[0], self.lname(m, t[1])] if t[0] == "fixed" else ["ph", t[1], t[2]]))] for k, qs, t in spec],
                 "custom": custom}
        oracle(lambda kk, d, g: m.require(kk, d, g), td, ospec, before, after, custom, m)
        if m.want_sample() and m._check() == z3.sat:
            zm = m.solver.model()
            mdl = m.model_dict(zm); mdl["_ctx"] = m.ctx
            c = self.case("sample", "", mdl)
            c["after"] = json_tree(eval_tree(after, zm, None))
            return c
        return None

    def qname(self, m, v):
        return str(v) if is_sym(v) else v

    def lname(self, m, s):
        return str(s.sym) if isinstance(s, Str) and s.s is None else (s.s if isinstance(s, Str) else s)

    def case(self, kind, detail, model):
        ctx = model["_ctx"]
        spec = []
        for k, qs, t in ctx["spec"]:
            # fixed qubit variables are named q<i>; the context stores "q" + that name
            q2 = []
            for q in qs:
                if q[0] == "fixed":
                    name = q[1][1:] if isinstance(q[1], str) else q[1]
                    q2.append(["fixed", model.get(name, 0) if isinstance(name, str) else name])
                else: q2.append(["ph", q[1]])
            t2 = None
            if t is not None:
                t2 = ["fixed", LABELS[model.get(t[1], 0)] if isinstance(t[1], str) and t[1] in model else (t[1] if t[1] in LABELS else LABELS[0])] if t[0] == "fixed" else ["ph", t[1], t[2]]
            item = {"kind": {"gate1": "gate", "gate2": "gate"}.get(k, k)}
            if q2: item["qubits"] = q2
            if t2: item["target"] = t2
            spec.append(item)
        return {"spec": spec, "custom": ctx["custom"], "kinds": [k for k, _, _ in ctx["spec"]], "kind": kind, "detail": detail}

    def native(self, runner, case):
        r = runner.call({"op": "placeholders", "spec": case["spec"], "custom": case["custom"]})
        if "after" not in r: return None, r
        return ([parse_debug(x) for x in r["before"]], [parse_debug(x) for x in r["after"]]), r

    def ospec(self, case):
        out = []
        for k, item in zip(case["kinds"], case["spec"]):
            qs = [(q[0], q[1]) for q in item.get("qubits", [])]
            t = item.get("target")
            out.append((k, qs, None if t is None else (t[0], t[1])))
        return out

    def confirm(self, runner, case):
        obs, raw = self.native(runner, case)
        if obs is None:
            if "panic" in raw or "crash" in raw: return True, "panic", f"resolve_placeholders panics: {raw} on {case['spec']}"
            return None, "input", str(raw)[:300]
        col = Collect()
        oracle(col, self.td, self.ospec(case), obs[0], obs[1], case["custom"])
        if not col.failed: return False, "", "native run satisfies the oracle"
        kind, detail = col.failed[0]
        return True, kind, f"{kind} ({detail}) fails for {case['spec']} custom={case['custom']}: after={raw['after']}"

    def validate(self, runner, sample):
        obs, raw = self.native(runner, sample)
        if obs is None: return f"native failed: {raw}"
        a, b = strip_ph(json_tree(obs[1])), strip_ph(sample["after"])
        if a != b: return f"resolved bodies differ for {sample['spec']}: {tree_diff(a, b)}"
        return None

    def canary(self, runner, tier):
        case = {"spec": [{"kind": "gate", "qubits": [["ph", 0], ["ph", 1]]}], "custom": None, "kinds": ["gate2"]}
        obs, raw = self.native(runner, case)
        col = Collect()
        same = [("Gate", [("Gate", ["X", [], [("Fixed", [0]), ("Fixed", [0])], []])])]
        oracle(col, self.td, self.ospec(case), obs[0], same, None)
        return True if any(k == "qubits-distinct" for k, _ in col.failed) else "oracle accepted two placeholders resolved to one qubit"


def to_tree_ph(m, v):
    return to_tree(m, v)


def strip_ph(t):
    """placeholder addresses differ between the two worlds: compare everything else"""
    if isinstance(t, list) and len(t) == 2 and t[0] in ("QubitPlaceholder", "TargetPlaceholder"): return [t[0], []]
    if isinstance(t, list): return [strip_ph(x) for x in t]
    return t


CHECK = C34()
