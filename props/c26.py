"""C26 — default frame matching follows the Quil-T frame rules."""
from common import *

QS = [0, 1, 2]
FN = ["a", "b"]
FRAME_TPLS = [
    Tpl("f1", 'DEFFRAME {q} "{f}":\n\tDIRECTION: "tx"', q=("int", QS), f=("str", FN)),
    Tpl("f2", 'DEFFRAME {q} {r} "{f}":\n\tDIRECTION: "tx"', q=("int", [0, 1]), r=("int", [1, 2]), f=("str", FN)),
]
WF = "flat(duration: 1.0, iq: 1.0)"
INS_TPLS = [
    Tpl("pulse1", 'PULSE {q} "{f}" ' + WF, q=("int", QS), f=("str", FN)),
    Tpl("pulse2", 'PULSE {q} {r} "{f}" ' + WF, q=("int", [0, 1]), r=("int", [1, 2]), f=("str", FN)),
    Tpl("nbpulse1", 'NONBLOCKING PULSE {q} "{f}" ' + WF, q=("int", QS), f=("str", FN)),
    Tpl("capture1", 'CAPTURE {q} "{f}" ' + WF + " ro[0]", q=("int", QS), f=("str", FN)),
    Tpl("nbcapture2", 'NONBLOCKING CAPTURE {q} {r} "{f}" ' + WF + " ro[0]", q=("int", [0, 1]), r=("int", [1, 2]), f=("str", FN)),
    Tpl("rawcapture1", 'RAW-CAPTURE {q} "{f}" 1.0 ro[0]', q=("int", QS), f=("str", FN)),
    Tpl("setphase", 'SET-PHASE {q} "{f}" 1.0', q=("int", QS), f=("str", FN)),
    Tpl("setfrequency", 'SET-FREQUENCY {q} {r} "{f}" 1.0', q=("int", [0, 1]), r=("int", [1, 2]), f=("str", FN)),
    Tpl("setscale", 'SET-SCALE {q} "{f}" 1.0', q=("int", QS), f=("str", FN)),
    Tpl("shiftphase", 'SHIFT-PHASE {q} "{f}" 1.0', q=("int", QS), f=("str", FN)),
    Tpl("shiftfrequency", 'SHIFT-FREQUENCY {q} "{f}" 1.0', q=("int", QS), f=("str", FN)),
    Tpl("swapphases", 'SWAP-PHASES {q} "{f}" {r} "{g}"', q=("int", QS), f=("str", FN), r=("int", QS), g=("str", FN)),
    Tpl("fence0", "FENCE"),
    Tpl("fence1", "FENCE {q}", q=("int", QS)),
    Tpl("fence2", "FENCE {q} {r}", q=("int", QS), r=("int", QS)),
    Tpl("delay1", "DELAY {q} 1.0", q=("int", QS)),
    Tpl("delay2", "DELAY {q} {r} 1.0", q=("int", [0, 1]), r=("int", [1, 2])),
    Tpl("delay1n", 'DELAY {q} "{f}" 1.0', q=("int", QS), f=("str", FN)),
    Tpl("delay1nn", 'DELAY {q} "{f}" "{g}" 1.0', q=("int", QS), f=("str", FN), g=("str", FN)),
    Tpl("reset1", "RESET {q}", q=("int", QS)),
    Tpl("gate", "X {q}", q=("int", QS)),
    Tpl("move", "MOVE ro[0] 1"),
]


def fld(td, t, struct, name):
    return t[1][td.structs[struct].index(name)]


def ref_sets(td, decide, frames, ins, m=None):
    """(used, blocked) index sets into `frames` ([FrameIdentifier trees]) per the Quil-T rules, or None when the instruction
    has no frame effect"""
    k = ins[0]
    p = ins[1][0] if ins[1] else None

    def qubits(f): return fld(td, f, "FrameIdentifier", "qubits")
    def name(f): return fld(td, f, "FrameIdentifier", "name")

    def same_frame(f, g): return decide(tree_eq(f, g, m))
    def has_qubit(f, q): return any(decide(tree_eq(x, q, m)) for x in qubits(f))

    def exact_qubits(f, qs):
        a = qubits(f)
        return all(any(decide(tree_eq(x, y, m)) for y in qs) for x in a) and all(any(decide(tree_eq(x, y, m)) for x in a) for y in qs)

    n = range(len(frames))
    if k in ("Pulse", "Capture", "RawCapture"):
        fr = fld(td, p, k, "frame")
        blocking = fld(td, p, k, "blocking")
        used = {i for i in n if same_frame(frames[i], fr)}
        blocked = set()
        if decide(tree_eq(blocking, True, m)):
            blocked = {i for i in n if i not in used and any(has_qubit(frames[i], q) for q in qubits(fr))}
        return used, blocked
    if k in ("SetFrequency", "SetPhase", "SetScale", "ShiftFrequency", "ShiftPhase"):
        fr = fld(td, p, k, "frame")
        return {i for i in n if same_frame(frames[i], fr)}, set()
    if k == "SwapPhases":
        f1, f2 = fld(td, p, k, "frame_1"), fld(td, p, k, "frame_2")
        return {i for i in n if same_frame(frames[i], f1) or same_frame(frames[i], f2)}, set()
    if k == "Fence":
        qs = fld(td, p, k, "qubits")
        if not qs: return set(n), set()
        return {i for i in n if any(has_qubit(frames[i], q) for q in qs)}, set()
    if k == "Delay":
        qs, names = fld(td, p, k, "qubits"), fld(td, p, k, "frame_names")
        used = {i for i in n if exact_qubits(frames[i], qs) and (not names or any(decide(tree_eq(name(frames[i]), x, m)) for x in names))}
        return used, set()
    if k == "Reset":
        q = fld(td, p, k, "qubit")
        if q[0] == "None": return "unqualified-reset"
        q = q[1][0]
        used = {i for i in n if exact_qubits(frames[i], [q])}
        blocked = {i for i in n if i not in used and has_qubit(frames[i], q)}
        return used, blocked
    return None


def oracle(req, decide, td, frames, ins, result, m=None):
    """result: None (no frame effect) or {"used": [frame trees], "blocked": [frame trees]}"""
    exp = ref_sets(td, decide, frames, ins, m)
    kind = ins[0]
    if exp == "unqualified-reset": return
    if exp is None:
        req("no-frame-effect", kind, result is None)
        return
    if not req("has-frame-effect", kind, result is not None): return
    used, blocked = result["used"], result["blocked"]

    def index_of(f):
        for i, g in enumerate(frames):
            if decide(tree_eq(f, g, m)): return i
        return None
    ui = [index_of(f) for f in used]
    bi = [index_of(f) for f in blocked]
    req("used-defined", kind, all(i is not None for i in ui))
    req("blocked-defined", kind, all(i is not None for i in bi))
    us, bs = {i for i in ui if i is not None}, {i for i in bi if i is not None}
    req("disjoint", kind, not (us & bs))
    req("used-set", kind, us == exp[0])
    req("blocked-set", kind, bs == exp[1])


class C26(Check):
    id = "C26"
    title = "Default frame matching follows the Quil-T frame rules"
    functions = ["<DefaultHandler as InstructionHandler>::matching_frames", "Instruction::default_frame_match_condition", "FrameSet::{filter,get_matching_keys_for_condition}"]
    assumptions = ["frame sets of <= K frames on 1 or 2 qubits with solver-chosen qubits in {0,1,2} and names in {a,b}; one instruction with solver-chosen operands",
                   "HashSet / IndexMap modelled as association lists with the interpreted Eq of FrameIdentifier / Qubit"]
    outside = ["RESET without a qubit (the statement speaks of RESET of a qubit; its result depends on the program's used-qubit cache, see C10)", "frames on three or more qubits", "more than K frames"]
    K = {"quick": 2, "thorough": 3}
    sample_rate = 32
    max_paths = {"quick": 400000, "thorough": 6000000}

    def bounds(self, tier):
        return {"frames": f"<= {self.K[tier]}", "instruction_templates": [t.name for t in INS_TPLS], "qubits": QS, "frame_names": FN}

    def setup(self, world, runner, tier):
        self.td = world.td
        parse_templates(runner, world.td, FRAME_TPLS + INS_TPLS)

    def path(self, m):
        k = m.choose([(j, None) for j in range(0, self.K[m.tier] + 1)])
        shapes = [m.choose([(t.name, None) for t in FRAME_TPLS]) for _ in range(k)]
        it = m.choose([(t.name, None) for t in INS_TPLS])
        m.ctx = {"shapes": shapes, "ins": it}
        prog = m.call_path("Program::new", [])
        cell = [prog]
        fr_tpl = {t.name: t for t in FRAME_TPLS}
        for j, s in enumerate(shapes):
            a, hv = instantiate(m, fr_tpl[s], f"f{j}_")
            if s == "f2": m.assume(z3.ULT(hv["q"], hv["r"]) if is_sym(hv["q"]) or is_sym(hv["r"]) else hv["q"] < hv["r"])
            m.call_path("Program::add_instruction", [Ref(cell, 0), a])
        tpl = next(t for t in INS_TPLS if t.name == it)
        ins, hv = instantiate(m, tpl, "x_")
        if "r" in hv and "q" in hv and it not in ("swapphases",):
            c = hv["q"] != hv["r"]
            m.assume(c if is_sym(c) else bool(c))
        r = m.call_path("<DefaultHandler as InstructionHandler>::matching_frames", [Ref([Agg("DefaultHandler", None, [])], 0), Ref(cell, 0), Ref([ins], 0)])
        m.force_tag(r)
        frames_map = cell[0].fields[m.td.structs["Program"].index("frames")].fields[0]
        frames = [to_tree(m, kx) for kx, _ in frames_map.items]
        res = None
        if r.tag == 1:
            mf = r.fields[0]
            names = m.td.structs["MatchedFrames"]
            res = {"used": to_tree(m, mf.fields[names.index("used")])[1], "blocked": to_tree(m, mf.fields[names.index("blocked")])[1]}
        oracle(lambda kk, d, g: m.require(kk, d, g), m.branch_bool, m.td, frames, to_tree(m, ins), res, m)
        if m.want_sample() and m._check() == z3.sat:
            zm = m.solver.model()
            mdl = m.model_dict(zm); mdl["_ctx"] = m.ctx
            c = self.case("sample", "", mdl)
            c["result"] = json_tree(eval_tree(res, zm, None)) if res is not None else None
            return c
        return None

    def case(self, kind, detail, model):
        ctx = model["_ctx"]
        fr_tpl = {t.name: t for t in FRAME_TPLS}
        ptxt = [fr_tpl[s].render(hole_values(fr_tpl[s], f"f{j}_", model)) for j, s in enumerate(ctx["shapes"])]
        tpl = next(t for t in INS_TPLS if t.name == ctx["ins"])
        return {"program": "\n".join(ptxt), "instruction": tpl.render(hole_values(tpl, "x_", model)), "kind": kind, "detail": detail}

    def native(self, runner, case):
        r = runner.call({"op": "matching_frames", "program": case["program"], "instructions": [case["instruction"]]})
        if "results" not in r: return None, r
        frames = [parse_debug(x) for x in r["frames"]]
        x = r["results"][0]
        ins = parse_debug(x["instruction"])
        res = None if x.get("none") else {"used": [parse_debug(f) for f in x["used"]], "blocked": [parse_debug(f) for f in x["blocked"]]}
        return (frames, ins, res), r

    def confirm(self, runner, case):
        obs, raw = self.native(runner, case)
        if obs is None:
            if "panic" in raw or "crash" in raw: return True, "panic", f"matching_frames panics: {raw} on {case}"
            return None, "input", str(raw)[:300]
        col = Collect()
        oracle(col, bool, self.td, obs[0], obs[1], obs[2])
        if not col.failed: return False, "", "native run satisfies the oracle"
        kind, detail = col.failed[0]
        return True, f"{kind}:{detail}", f"{kind} wrong for `{case['instruction']}` with frames {case['program']!r}: {raw['results'][0]}"

    def validate(self, runner, sample):
        obs, raw = self.native(runner, sample)
        if obs is None: return "skip" if "input_error" in raw else f"native failed: {raw}"
        a, b = obs[2], sample["result"]
        if (a is None) != (b is None): return f"Some/None differs: native {a} mirsym {b}"
        if a is None: return None
        for key in ("used", "blocked"):
            x = sorted(json.dumps(json_tree(t)) for t in a[key]); y = sorted(json.dumps(t) for t in b[key])
            if x != y: return f"{key} differs: native {x} mirsym {y}"
        return None

    def canary(self, runner, tier):
        case = {"program": 'DEFFRAME 0 "a":\n\tDIRECTION: "tx"\nDEFFRAME 0 1 "a":\n\tDIRECTION: "tx"', "instruction": 'PULSE 0 "a" ' + WF}
        obs, raw = self.native(runner, case)
        col = Collect()
        oracle(col, bool, self.td, obs[0], obs[1], {"used": obs[2]["used"], "blocked": []})
        return True if any(k == "blocked-set" for k, _ in col.failed) else "oracle accepted a missing blocked frame"


CHECK = C26()
