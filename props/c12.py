"""C12 — expression simplification preserves the expression's value."""
from common import *
from fractions import Fraction
import math
import c13
import lib_core
from c13 import VARS, REGS, FUNCS, INFIX, PREFIX, arc, fbits

NUMS = [0.0, 1.0, -1.0, 2.0, 0.5]
PI = 3.141592653589793


class Outside(Exception):
    pass


# ---------------------------------------------------------------------------------------- stubs for the arithmetic kernels
def _frac(x):
    if is_sym(x): raise Unsupported("symbolic number in a constant fold")
    if x != x or x in (float("inf"), float("-inf")): raise PathEnd("non-finite constant (division by a literal zero): the expression has no finite value")
    return Fraction(x)


def _exact(fr):
    f = float(fr)
    if Fraction(f) != fr: raise PathEnd("constant fold that is not exact in binary64 (outside the claim)")
    return f


def fold_infix(m, l, op, r):
    """stub for expression::calculate_infix on literals: exact rational arithmetic; an inexact fold ends the path (outside the claim)"""
    a, b = deref(l), deref(r)
    t = deref(op)
    if isinstance(t, Agg) and t.tag is None: m.force_tag(t)
    name = m.td.enums["InfixOperator"][t.tag] if isinstance(t, Agg) else INFIX[t]
    ar, ai, br, bi = _frac(a.fields[0]), _frac(a.fields[1]), _frac(b.fields[0]), _frac(b.fields[1])
    if name == "Plus": re, im = ar + br, ai + bi
    elif name == "Minus": re, im = ar - br, ai - bi
    elif name == "Star": re, im = ar * br - ai * bi, ar * bi + ai * br
    elif name == "Slash":
        d = br * br + bi * bi
        if d == 0: raise PathEnd("division by a literal zero: the expression has no finite value")
        re, im = (ar * br + ai * bi) / d, (ai * br - ar * bi) / d
    else:
        # powc goes through exp / ln and is not exact even for small integers ((2+1)^2 folds to 9.000000000000002)
        raise PathEnd("power of two literals is folded numerically (outside the claim)")
    return Agg("Complex", None, [_exact(re), _exact(im)])


def fold_function(m, f, arg):
    raise PathEnd("function of a literal is folded numerically (outside the claim: the reference treats functions as uninterpreted)")


def complex_norm(m, c):
    c = deref(c)
    return math.hypot(c.fields[0], c.fields[1])


def install_stubs(world):
    for k in ("calculate_function", "expression::calculate_function"): world.models[k] = fold_function
    for k in ("calculate_infix", "expression::calculate_infix"): world.models[k] = fold_infix


# ------------------------------------------------------------------------------------------------------------ trees
def mkexpr(m, s):
    """Expression value of a concrete shape"""
    td = m.td
    E = td.enums["Expression"]
    mk = lambda variant, *f: Agg("Expression", E.index(variant), list(f))

    def st(sname, **kw):
        a = Agg(sname, None, [None] * len(td.structs[sname]))
        for kk, v in kw.items(): a.fields[td.structs[sname].index(kk)] = v
        return a
    k = s[0]
    if k == "num": return mk("Number", Agg("Complex", None, [s[1], 0.0]))
    if k == "pi": return mk("PiConstant")
    if k == "var": return mk("Variable", Str(s[2]))
    if k == "addr": return mk("Address", st("MemoryReference", name=Str(s[2]), index=0))
    if k == "prefix": return mk("Prefix", st("PrefixExpression", operator=Agg("PrefixOperator", td.enums["PrefixOperator"].index(s[1]), []), expression=lib_core.arcintern_new(m, mkexpr(m, s[2]))))
    if k == "call": return mk("FunctionCall", st("FunctionCallExpression", function=Agg("ExpressionFunction", td.enums["ExpressionFunction"].index(s[1]), []), expression=lib_core.arcintern_new(m, mkexpr(m, s[2]))))
    return mk("Infix", st("InfixExpression", left=lib_core.arcintern_new(m, mkexpr(m, s[2])), operator=Agg("InfixOperator", td.enums["InfixOperator"].index(s[1]), []), right=lib_core.arcintern_new(m, mkexpr(m, s[3]))))


LEAVES_Q = [("num", 0.0), ("num", 1.0), ("num", 2.0), ("var", None, "x"), ("var", None, "y"), ("addr", None, "a")]
LEAVES_T = LEAVES_Q + [("num", -1.0), ("num", 0.5), ("pi",)]
LEAVES_INNER = [("num", 2.0), ("var", None, "x"), ("var", None, "y")]


def choose_leaf(m, leaves):
    return m.choose([(l, None) for l in leaves])


def choose_depth1(m, leaves, prefixes, funcs, allow_leaf=True):
    """a leaf or one operator over leaves"""
    k = m.choose([(x, None) for x in ((["leaf"] if allow_leaf else []) + ["infix", "prefix", "call"])])
    if k == "leaf": return choose_leaf(m, leaves)
    if k == "prefix": return ("prefix", m.choose([(x, None) for x in prefixes]), choose_leaf(m, leaves))
    if k == "call": return ("call", m.choose([(x, None) for x in funcs]), choose_leaf(m, [l for l in leaves if l[0] != "num" and l[0] != "pi"]))
    return ("infix", m.choose([(x, None) for x in INFIX]), choose_leaf(m, leaves), choose_leaf(m, leaves))


SMALL = [2.0 ** -20, 1.0 + 2.0 ** -20, -(2.0 ** -20)]          # small but far above the simplifier's 1e-10 tolerance; dyadic, so folds stay exact


def small_literal_shape(m):
    """one operator with a small (or close-to-one) literal on either side of a non-literal operand: the zero / one shortcuts must not fire"""
    op = m.choose([(x, None) for x in INFIX])
    c = ("num", m.choose([(x, None) for x in SMALL]))
    other = choose_leaf(m, [("var", None, "x"), ("addr", None, "a"), ("pi",)])
    return ("infix", op, c, other) if m.choose([("left", None), ("right", None)]) == "left" else ("infix", op, other, c)


def choose_shape(m, tier):
    """quick: every tree with at most one compound operand per operator, plus both operands compound over a small inner alphabet;
    thorough: every tree of depth <= 2 over the full alphabet, then depth 3 with depth-1 operands"""
    if tier == "quick":
        L, P, F = LEAVES_Q, ["Minus"], ["Sine"]
        k = m.choose([(x, None) for x in ["depth1", "prefix", "call", "left-compound", "right-compound", "both-compound", "deep-chain", "affine", "small-literal"]])
        if k == "small-literal": return small_literal_shape(m)
        if k == "affine":
            # the affine rules look three levels deep: (A*B + b) + (C*D + d), (A*B) + (C*D), (X + b) + (Y + d)
            A = [("var", None, "x"), ("var", None, "y"), ("num", 2.0), ("addr", None, "a")]
            form = m.choose([(x, None) for x in ["full", "products", "sums"]])
            leaf = lambda: choose_leaf(m, A)
            prod = lambda: ("infix", "Star", leaf(), leaf())
            if form == "products": return ("infix", "Plus", prod(), prod())
            if form == "sums": return ("infix", "Plus", ("infix", "Plus", leaf(), leaf()), ("infix", "Plus", leaf(), leaf()))
            cst = lambda: choose_leaf(m, [("num", 1.0), ("var", None, "y")])
            return ("infix", "Plus", ("infix", "Plus", prod(), cst()), ("infix", "Plus", prod(), cst()))
        if k == "deep-chain":
            # the simplifier gives up after 10 levels (LIMIT): unary chains up to depth 14 over pi, a variable and a sum with pi
            n = m.choose([(i, None) for i in range(8, 15)])
            s = m.choose([(x, None) for x in [("pi",), ("var", None, "x"), ("infix", "Plus", ("var", None, "x"), ("pi",))]])
            outer = m.choose([(x, None) for x in ["Minus", "Sine"]])
            for _ in range(n): s = ("prefix", "Minus", s) if outer == "Minus" else ("call", "Sine", s)
            return s
        if k == "depth1": return choose_depth1(m, L, P, F)
        if k == "prefix": return ("prefix", "Minus", choose_depth1(m, L, P, F, allow_leaf=False))
        if k == "call": return ("call", "Sine", choose_depth1(m, L, P, F, allow_leaf=False))
        op = m.choose([(x, None) for x in INFIX])
        if k == "left-compound": return ("infix", op, choose_depth1(m, L, P, F, allow_leaf=False), choose_leaf(m, L))
        if k == "right-compound": return ("infix", op, choose_leaf(m, L), choose_depth1(m, L, P, F, allow_leaf=False))
        inner = lambda: ("infix", m.choose([(x, None) for x in ["Plus", "Minus", "Star", "Slash"]]), choose_leaf(m, LEAVES_INNER), choose_leaf(m, LEAVES_INNER))
        return ("infix", op, inner(), inner())
    L, P, F = LEAVES_T, PREFIX, FUNCS
    if m.choose([("trees", None), ("small-literal", None)]) == "small-literal": return small_literal_shape(m)

    def tree(d):
        if d == 0: return choose_leaf(m, L)
        k = m.choose([(x, None) for x in ["leaf", "infix", "prefix", "call"]])
        if k == "leaf": return choose_leaf(m, L)
        if k == "prefix": return ("prefix", m.choose([(x, None) for x in P]), tree(d - 1))
        if k == "call": return ("call", m.choose([(x, None) for x in F]), tree(d - 1))
        return ("infix", m.choose([(x, None) for x in INFIX]), tree(d - 1), tree(d - 1))
    return tree(2)


def shape_of_tree(t):
    """shape of an Expression tree (as produced by to_tree / parse_debug)"""
    k = t[0]
    if k == "Number":
        c = t[1][0]
        return ("num", c[1][0], c[1][1])
    if k == "PiConstant": return ("pi",)
    if k == "Variable": return ("var", None, t[1][0])
    if k == "Address": return ("addr", None, t[1][0][1][0], t[1][0][1][1])
    p = t[1][0]
    if k == "Prefix": return ("prefix", p[1][0][0], shape_of_tree(p[1][1]))
    if k == "FunctionCall": return ("call", p[1][0][0], shape_of_tree(p[1][1]))
    return ("infix", p[1][1][0], shape_of_tree(p[1][0]), shape_of_tree(p[1][2]))


# ------------------------------------------------------------------------------------------- value semantics (z3 reals)
R = z3.RealSort()
UF_FN = [z3.Function(f"c12_fn_{p}", z3.IntSort(), R, R, R) for p in ("re", "im")]
UF_POW = [z3.Function(f"c12_pow_{p}", R, R, R, R, R) for p in ("re", "im")]


def rat(x):
    fr = Fraction(x)
    return z3.RealVal(f"{fr.numerator}/{fr.denominator}")


class Sem:
    """value of a shape as a pair of z3 Real terms; collects `pre` (the expression has a finite value: only for the original)
    and `defs` (definitions of the quotient variables and the facts about powers that the statement's arithmetic provides)"""

    APPS = None          # applications of the uninterpreted functions of one query, shared by its two Sem objects

    def __init__(self, tag, apps=None):
        self.tag, self.pre, self.defs, self.n = tag, [], [], 0
        self.apps = apps if apps is not None else []

    def apply(self, f, args):
        """an uninterpreted function application as two fresh reals (Ackermann's reduction: the query stays in pure nonlinear real
        arithmetic, which z3 decides); `congruence()` adds: equal arguments give equal results"""
        res = (self.fresh("ur"), self.fresh("ui"))
        self.apps.append((f, args, res))
        if f[0] == "fn" and f[1] in ("Exponent", "Cis"): self.defs.append(z3.Or(res[0] != 0, res[1] != 0))          # exp and cis never vanish
        return res

    @staticmethod
    def congruence(apps):
        out = []
        for i in range(len(apps)):
            for j in range(i + 1, len(apps)):
                (f, a, r), (g, b, q) = apps[i], apps[j]
                if f != g: continue
                out.append(z3.Implies(z3.And([x == y for x, y in zip(a, b)]), z3.And(r[0] == q[0], r[1] == q[1])))
        return out

    def fresh(self, what):
        self.n += 1
        return z3.Real(f"{self.tag}_{what}{self.n}")

    def value(self, s):
        k = s[0]
        if k == "num": return rat(s[1]), rat(s[2] if len(s) > 2 else 0.0)
        if k == "pi": return rat(PI), rat(0.0)
        if k == "var": return z3.Real(f"v_{s[2]}_re"), z3.Real(f"v_{s[2]}_im")
        if k == "addr": return z3.Real(f"m_{s[2]}_{s[3] if len(s) > 3 else 0}"), rat(0.0)
        if k == "prefix":
            re, im = self.value(s[2])
            return (-re, -im) if s[1] == "Minus" else (re, im)
        if k == "call":
            re, im = self.value(s[2])
            return self.apply(("fn", s[1]), (re, im))
        (ar, ai), (br, bi) = self.value(s[2]), self.value(s[3])
        op = s[1]
        if op == "Plus": return ar + br, ai + bi
        if op == "Minus": return ar - br, ai - bi
        if op == "Star": return ar * br - ai * bi, ar * bi + ai * br
        if op == "Slash":
            qr, qi = self.fresh("qr"), self.fresh("qi")
            self.pre.append(z3.Or(br != 0, bi != 0))
            self.defs += [qr * br - qi * bi == ar, qr * bi + qi * br == ai]
            return qr, qi
        pr, pi_ = self.apply(("pow",), (ar, ai, br, bi))
        bz, ez = z3.And(ar == 0, ai == 0), z3.And(br == 0, bi == 0)
        self.pre.append(z3.Or(z3.Not(bz), ez, br > 0))                      # 0 ^ e is finite only for e = 0 or Re e > 0
        self.defs += [z3.Implies(ez, z3.And(pr == 1, pi_ == 0)), z3.Implies(z3.And(br == 1, bi == 0), z3.And(pr == ar, pi_ == ai)),
                      z3.Implies(z3.And(ar == 1, ai == 0), z3.And(pr == 1, pi_ == 0)), z3.Implies(z3.And(bz, z3.Not(ez)), z3.And(pr == 0, pi_ == 0))]
        return pr, pi_


def concretize(m, s):
    """replace solver-chosen names by concrete ones (forking): the arithmetic query is then pure nonlinear real arithmetic"""
    if s[0] in ("var", "addr"):
        name = s[2]
        if isinstance(name, Str): name = m.str_concrete(name)
        return (s[0], s[1], name) + tuple(s[3:])
    if s[0] in ("prefix", "call"): return (s[0], s[1], concretize(m, s[2]))
    if s[0] == "infix": return (s[0], s[1], concretize(m, s[2]), concretize(m, s[3]))
    return s


def names_of(s, kind):
    if s[0] == kind: return {s[2]}
    out = set()
    for c in s[2:] if s[0] in ("prefix", "call", "infix") else []: out |= names_of(c, kind)
    return out


def require_valid(m, kind, detail, hyp, goal):
    """obligation `hyp -> goal` for all real values, decided by a fresh (non-incremental) solver: z3's nonlinear real
    arithmetic procedure is only complete enough outside push/pop mode.  The path is concrete, so no path constraint is needed."""
    import time
    m.world.count("obligations")
    s = z3.Solver()
    s.set("timeout", 20000)
    for h in hyp: s.add(h)
    s.add(z3.Not(goal) if is_sym(goal) else z3.BoolVal(not goal))
    t0 = time.time()
    m.queries += 1
    r = s.check()
    m.solver_time += time.time() - t0
    if r == z3.unsat:
        m.world.count("discharged")
        return True
    if r == z3.unknown:
        m.unknowns += 1
        return False
    md = m.model_dict(s.model())
    md["_ctx"] = dict(m.ctx)
    m.findings.append((kind, detail, md))
    return False


def has_nan(s):
    if s[0] == "num": return s[1] != s[1] or (len(s) > 2 and s[2] != s[2])
    return any(has_nan(c) for c in (s[2:] if s[0] in ("prefix", "call", "infix") else []))


def has_zero_division(s):
    """some denominator is (after folding) the literal zero; conservative: any Slash whose right operand contains no name"""
    if s[0] == "infix" and s[1] == "Slash" and not names_of(s[3], "var") and not names_of(s[3], "addr"): return True
    return any(has_zero_division(c) for c in (s[2:] if s[0] in ("prefix", "call", "infix") else []))


def has_pi(s):
    return s[0] == "pi" or any(has_pi(c) for c in (s[2:] if s[0] in ("prefix", "call", "infix") else []))


def to_json(s):
    k = s[0]
    if k == "num": return {"k": "num", "re": fbits(s[1]), "im": fbits(s[2] if len(s) > 2 else 0.0)}
    if k == "pi": return {"k": "pi"}
    if k == "var": return {"k": "var", "name": s[2]}
    if k == "addr": return {"k": "addr", "name": s[2], "index": 0}
    if k == "prefix": return {"k": "prefix", "op": s[1], "e": to_json(s[2])}
    if k == "call": return {"k": "call", "f": s[1], "e": to_json(s[2])}
    return {"k": "infix", "op": s[1], "l": to_json(s[2]), "r": to_json(s[3])}


def text_of(s):
    k = s[0]
    if k == "num": return repr(s[1])
    if k == "pi": return "pi"
    if k == "var": return "%" + str(s[2])
    if k == "addr": return f"{s[2]}[0]"
    if k == "prefix": return ("-" if s[1] == "Minus" else "+") + "(" + text_of(s[2]) + ")"
    if k == "call": return {"Cis": "cis", "Cosine": "cos", "Exponent": "exp", "Sine": "sin", "SquareRoot": "sqrt"}[s[1]] + "(" + text_of(s[2]) + ")"
    return "(" + text_of(s[2]) + {"Plus": "+", "Minus": "-", "Star": "*", "Slash": "/", "Caret": "^"}[s[1]] + text_of(s[3]) + ")"


class C12(Check):
    id = "C12"
    title = "Expression simplification preserves the expression's value"
    functions = ["Expression::into_simplified", "simplification::by_hand::run", "Simplifier::{simplify,simplify_infix,simplify_prefix,simplify_function_call,size,smaller}", "mul_matches",
                 "is_zero", "is_one", "expression::interned::*"]
    assumptions = ["expression trees of depth <= D: every node kind, operator and function enumerated; number literals from {0, 1, -1, 2, 0.5} (plus 2^-20, -(2^-20), 1 + 2^-20 in the small-literal shape); variable / region names solver-chosen",
                   "value semantics of the oracle: exact complex arithmetic over the reals for + - * /, the five functions uninterpreted, ^ uninterpreted with the facts x^0 = 1, x^1 = x, "
                   "1^x = 1, 0^x = 0 (x != 0); equality of the two values under every assignment on which the original has a finite value (denominators non-zero, 0^x only for x = 0 or Re x > 0) "
                   "is decided by z3 (nonlinear real arithmetic); exact equality implies equality up to floating-point rounding",
                   "stubs: calculate_infix on literals = exact rational arithmetic (an inexact fold ends the path: outside the claim); calculate_function on a literal ends the path (outside the claim)"]
    outside = ["literals outside the set (in particular literals of magnitude below the simplifier's 1e-10 tolerance)", "functions applied to constant subtrees", "trees deeper than D",
               "floating-point rounding itself"]
    D = {"quick": 2, "thorough": 3}
    sample_rate = 8
    max_paths = {"quick": 800000, "thorough": 8000000}
    wall_cap = {"quick": 900, "thorough": 7200}

    def bounds(self, tier):
        return {"depth": f"<= {self.D[tier]}", "literals": NUMS, "variables": VARS, "regions": REGS, "operators": INFIX + ["prefix " + p for p in PREFIX], "functions": FUNCS}

    def setup(self, world, runner, tier):
        self.td = world.td
        install_stubs(world)

    def path(self, m):
        m.max_depth = max(m.max_depth, 3000)
        shape0 = choose_shape(m, m.tier)
        e = mkexpr(m, shape0)
        orig = shape_of_tree(to_tree(m, e))
        m.ctx = {"orig": to_json(orig), "text": text_of(orig), "simp_text": "?"}
        r = m.call_path("Expression::into_simplified", [e])
        st = to_tree(m, r)
        simp = shape_of_tree(st)
        for v in VARS:
            for p in ("re", "im"): m.vars[f"v_{v}_{p}"] = z3.Real(f"v_{v}_{p}")
        for rg in REGS: m.vars[f"m_{rg}_0"] = z3.Real(f"m_{rg}_0")
        if has_nan(simp):
            # a literal NaN in the result is right only if the original has no finite value under any assignment
            so = Sem("o")
            so.value(orig)
            hyp = [h for h in so.pre + so.defs + Sem.congruence(so.apps) if h is not True]
            m.ctx = {"orig": to_json(orig), "text": text_of(orig), "simp_text": "NaN"}
            require_valid(m, "same-value", shape_kind(orig), [], z3.Not(z3.And(hyp)) if hyp else False)
            return None
        if simp == orig:
            m.require("same-value", "unchanged", True)
            return None
        m.ctx = {"orig": to_json(orig), "simp": to_json(simp), "text": text_of(orig), "simp_text": text_of(simp)}
        m.require("no-pi-constant", "", not has_pi(simp))
        m.require("no-new-variables", "", names_of(simp, "var") <= names_of(orig, "var"))
        m.require("no-new-memory-references", "", names_of(simp, "addr") <= names_of(orig, "addr"))
        apps = []
        so, ss = Sem("o", apps), Sem("s", apps)
        (ore, oim), (sre, sim) = so.value(orig), ss.value(simp)
        # the simplified tree's own divisions: where its denominator vanishes it has no finite value, which is a difference
        pre = z3.And(so.pre) if so.pre else True
        same = z3.And([z3.Or(ss_p) if False else ss_p for ss_p in ss.pre] + [ore == sre, oim == sim])
        hyp = [pre] + so.defs + ss.defs + Sem.congruence(apps)
        hyp = [h for h in hyp if h is not True]
        require_valid(m, "same-value", shape_kind(orig), hyp, same)
        if m.want_sample() and m._check() == z3.sat:
            mdl = {"_ctx": m.ctx}
            return {"expr": m.ctx["orig"], "simplified": json_tree(eval_tree(st, m.solver.model(), None)), "text": m.ctx["text"]}
        return None

    def case(self, kind, detail, model):
        ctx = model["_ctx"]
        f = lambda name: fbits(real_of(model.get(name)))
        return {"expr": ctx["orig"], "text": ctx["text"], "simp_text": ctx["simp_text"],
                "vars": {v: [f(f"v_{v}_re"), f(f"v_{v}_im")] for v in VARS},
                "mem": {r: [f(f"m_{r}_0")] for r in REGS}, "kind": kind, "detail": detail}

    def native(self, runner, case):
        r = runner.call({"op": "expression_ops", "expr": case["expr"], "vars": case["vars"], "mem": case["mem"]})
        if "evaluate" not in r: return None, r
        return r, r

    def confirm(self, runner, case):
        r, raw = self.native(runner, case)
        if r is None:
            if "panic" in raw or "crash" in raw: return True, "panic", f"simplify panics on {case['text']}: {raw}"
            return None, "input", str(raw)[:300]
        simp = shape_of_tree(parse_debug(r["simplified"]))
        orig = shape_of_tree(parse_debug(r["expr"]))
        if has_pi(simp): return True, "no-pi-constant", f"simplify({case['text']}) = {text_of(simp)} contains pi"
        if not names_of(simp, "var") <= names_of(orig, "var") or not names_of(simp, "addr") <= names_of(orig, "addr"):
            return True, "no-new-names", f"simplify({case['text']}) = {text_of(simp)} mentions a name the original does not"
        if case.get("kind") not in ("same-value", None): return False, "", "native run satisfies the structural clauses"
        unb = lambda h: _unbits(h)
        close = lambda x, y: y == x or (math.isfinite(y.real) and math.isfinite(y.imag) and abs(x - y) <= 1e-9 * (1 + abs(x)))

        def values(rr):
            """(original value, simplified value or None) when the original is finite at this assignment, else None"""
            a, b = rr["evaluate"], rr["evaluate_simplified"]
            if "ok" not in a: return None
            x = complex(unb(a["ok"][0]), unb(a["ok"][1]))
            if not (math.isfinite(x.real) and math.isfinite(x.imag)): return None
            return x, (complex(unb(b["ok"][0]), unb(b["ok"][1])) if "ok" in b else None)
        got = values(r)
        if got is None or (got[1] is not None and close(*got)):
            # the solver's assignment does not separate the two natively.  Its model may rest on values no real function takes
            # (the functions and ^ are uninterpreted in the oracle): look for a separating assignment on a grid of generic values
            grid = [0.0, 1.0, -1.0, 2.0, 0.5, math.pi / 2, math.pi]
            found = None
            import itertools
            names = sorted(names_of(orig, "var")) + ["@" + n for n in sorted(names_of(orig, "addr"))]
            for combo in itertools.product(grid, repeat=len(names)):
                vs = {n: [fbits(v), fbits(0.0)] for n, v in zip(names, combo) if not n.startswith("@")}
                ms = {n[1:]: [fbits(v)] for n, v in zip(names, combo) if n.startswith("@")}
                rr = runner.call({"op": "expression_ops", "expr": case["expr"], "vars": vs, "mem": ms})
                g2 = values(rr) if "evaluate" in rr else None
                if g2 is not None and (g2[1] is None or not close(*g2)):
                    found = (vs, ms, g2); break
            if found is None:
                if got is None: return None, "non-finite", "the original has no finite value at the solver's assignment nor on the grid"
                uses_uf = "call" in json.dumps(case["expr"]) or "Caret" in json.dumps(case["expr"])
                if uses_uf: return None, "uninterpreted-function-artifact", f"values agree natively at the solver's assignment and on the grid: {got}"
                return False, "", f"values agree natively: {got}"
            case = dict(case, vars=found[0], mem=found[1])
            got = found[2]
        av, bv = got
        if bv is None: return True, "same-value:" + rule_signature(orig, simp), f"simplify({case['text']}) = {text_of(simp)} cannot be evaluated where the original gives {av}"
        asg = {k: complex(unb(v[0]), unb(v[1])) for k, v in case["vars"].items()}
        # cause: the smallest sub-expression (post-order) whose own simplification already changes its value at this assignment
        cause_o, cause_s = orig, simp
        for sub in subtrees(orig):
            rr = runner.call({"op": "expression_ops", "expr": to_json(sub), "vars": case["vars"], "mem": case["mem"]})
            if "evaluate" not in rr or "ok" not in rr["evaluate"]: continue
            x = complex(unb(rr["evaluate"]["ok"][0]), unb(rr["evaluate"]["ok"][1]))
            if not (math.isfinite(x.real) and math.isfinite(x.imag)): continue
            y = rr["evaluate_simplified"]
            yv = complex(unb(y["ok"][0]), unb(y["ok"][1])) if "ok" in y else None
            if yv is None or not (yv == x or (math.isfinite(yv.real) and math.isfinite(yv.imag) and abs(x - yv) <= 1e-9 * (1 + abs(x)))):
                cause_o, cause_s = sub, shape_of_tree(parse_debug(rr["simplified"]))
                if sub[0] == "infix" and sub[1] == "Caret":
                    # the rule that fired sees the *simplified* operands: `(2-2)^e` is the rule for a zero base as well
                    ops = []
                    for c in sub[2:]:
                        rc = runner.call({"op": "expression_ops", "expr": to_json(c), "vars": {}, "mem": {}})
                        ops.append(shape_of_tree(parse_debug(rc["simplified"])) if "simplified" in rc else c)
                    cause_o = ("infix", "Caret", ops[0], ops[1])
                break
        return True, "same-value:" + rule_signature(cause_o, cause_s), (f"simplify({case['text']}) = {text_of(simp)}, but at {asg}, memory {{{', '.join(k + ': ' + str(unb(v[0])) for k, v in case['mem'].items())}}} "
                                                               f"the original evaluates to {av} and the simplified form to {bv}")

    def validate(self, runner, sample):
        r = runner.call({"op": "expression_ops", "expr": sample["expr"], "vars": {}, "mem": {}})
        if "simplified" not in r: return f"native failed: {r}"
        nat = json_tree(parse_debug(r["simplified"]))
        if nat != sample["simplified"]: return f"simplified forms differ on {sample['text']}: native {nat} mirsym {sample['simplified']}"
        return None

    def canary(self, runner, tier):
        # x / x -> 1 is fine only because x = 0 has no finite value; without the precondition the oracle must object
        so, ss = Sem("o"), Sem("s")
        orig, simp = ("infix", "Minus", ("var", None, "x"), ("num", 1.0, 0.0)), ("var", None, "x")
        (ore, oim), (sre, sim) = so.value(orig), ss.value(simp)
        s = z3.Solver(); s.add(z3.Not(z3.And(ore == sre, oim == sim)))
        return True if s.check() == z3.sat else "the value oracle accepts x - 1 == x"


def _unbits(h):
    import struct
    return struct.unpack("<d", struct.pack("<Q", int(h, 16)))[0]


def real_of(v):
    """float of a model value (int, fraction string, algebraic approximation); 0.0 when the variable is unconstrained"""
    if v is None: return 0.0
    if isinstance(v, (int, float)): return float(v)
    s = str(v).rstrip("?")
    try:
        if "/" in s:
            a, b = s.split("/")
            return float(Fraction(int(a), int(b)))
        return float(s)
    except Exception:
        return 0.0


def shape_kind(s):
    """obligation label: the top operator and the kinds of its operands (candidates are grouped by it for native confirmation)"""
    def sk(c):
        if c[0] in ("var", "addr"): return "name"
        if c[0] == "num": return "num:" + repr(c[1])
        return c[0] + (":" + str(c[1]) if c[0] in ("infix", "prefix", "call") else "")
    if s[0] in ("infix", "prefix", "call"): return f"{s[1]}(" + ",".join(sk(c) for c in s[2:]) + ")"
    return sk(s)


def subtrees(s):
    """sub-expressions in post-order (smallest first), the expression itself last"""
    out = []
    for c in (s[2:] if s[0] in ("prefix", "call", "infix") else []): out += subtrees(c)
    return out + [s]


def rule_signature(orig, simp):
    """role of a value violation: the top operator of the original and the shapes of its operands (which rewrite rule fired)"""
    if orig[0] == "infix" and orig[1] == "Caret" and orig[2][0] == "num" and orig[2][1] == 0.0 and simp[0] == "num" and simp[1] == 0.0 and orig[3][0] != "num":
        return "zero-to-a-power-that-may-be-zero"          # the exponent is not a literal (0^0 itself has its own signature)

    def sk(s):
        if s[0] in ("var", "addr"): return "name"
        return s[0] + (":" + str(s[1]) if s[0] in ("infix", "prefix", "call") else (":" + repr(s[1]) if s[0] == "num" else ""))
    if orig[0] == "infix": return f"{orig[1]}({sk(orig[2])},{sk(orig[3])})->{sk(simp)}"
    return f"{sk(orig)}->{sk(simp)}"


CHECK = C12()
