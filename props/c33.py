"""C33 — wrapping a program in a loop repeats its body exactly n times."""
from containers import *
from c26 import fld

BODY = [Tpl("gate", "X {q}", q=("int", [0, 1])), Tpl("pragma", "PRAGMA {v}", v=("str", ["va", "vb"])), Tpl("move", "MOVE other[0] {k}", k=("int", [1, 2])),
        Tpl("measure", "MEASURE {q} other[0]", q=("int", [0, 1])), Tpl("nop", "NOP")]
DEFS = [Tpl("declare", "DECLARE other BIT[2]"), Tpl("defcal", "DEFCAL X {q}:\n\tY {q}", q=("int", [0, 1])), Tpl("defgate", "DEFGATE FOO AS PERMUTATION:\n\t0, 1"),
        Tpl("defframe", 'DEFFRAME 0 "rf":\n\tDIRECTION: "tx"')]
CTR, START = "loop_ctr", "loop_start"


def run_loop(td, body, limit=400):
    """tiny interpreter of the wrapped body: counter MOVE / SUB, LABEL, JUMP-WHEN (jumps while the counter is non-zero).
    returns the list of indices (into `body`) of the other instructions in execution order, or None when it does not stop"""
    labels = {}
    for i, t in enumerate(body):
        if t[0] == "Label": labels[json.dumps(json_tree(t[1][0][1][0]))] = i
    mem, pc, trace, steps = {}, 0, [], 0
    while pc < len(body):
        steps += 1
        if steps > limit: return None
        t = body[pc]
        k, p = t[0], (t[1][0] if t[1] else None)
        if k == "Move" and fld(td, p, "Move", "destination")[1][0] == CTR:
            src = fld(td, p, "Move", "source")
            mem[CTR] = src[1][0] if src[0] == "LiteralInteger" else None
        elif k == "Arithmetic" and fld(td, p, "Arithmetic", "destination")[1][0] == CTR:
            op, src = fld(td, p, "Arithmetic", "operator"), fld(td, p, "Arithmetic", "source")
            d = src[1][0]
            mem[CTR] = mem[CTR] - d if op[0] == "Subtract" else mem[CTR] + d if op[0] == "Add" else None
        elif k == "JumpWhen":
            cond, tgt = fld(td, p, "JumpWhen", "condition"), fld(td, p, "JumpWhen", "target")
            if cond[1][0] == CTR and mem.get(CTR) not in (0, None):
                pc = labels[json.dumps(json_tree(tgt))]; continue
        elif k == "Label": pass
        else: trace.append(pc)
        pc += 1
    return trace


def oracle(req, td, n, orig_listing, orig_body, res_listing, res_body, eq_orig, m=None):
    defs = lambda listing, body: listing[:len(listing) - len(body)]
    if isinstance(n, int) and n == 0:
        req("n0:body-empty", "", len(res_body) == 0)
        req("n0:definitions-kept", "", tree_eq(defs(res_listing, res_body), defs(orig_listing, orig_body), m))
        return
    if isinstance(n, int) and n == 1:
        req("n1:unchanged", "", eq_orig)
        req("n1:listing-unchanged", "", tree_eq(res_listing, orig_listing, m))
        return
    # n >= 2: definitions preserved (plus the counter declaration), body executes n times
    od, rd = defs(orig_listing, orig_body), defs(res_listing, res_body)
    kept = and_all(or_any(tree_eq(x, y, m) for y in rd) for x in od)
    req("definitions-kept", "", kept)
    if isinstance(n, int):
        trace = run_loop(td, res_body)
        if req("terminates", f"n={n}", trace is not None):
            executed = [res_body[i] for i in trace]
            req("body-executed-n-times", f"n={n}", tree_eq(executed, list(orig_body) * n, m))
    else:
        # symbolic n: the counter is initialised with exactly n, decremented by one, and tested by the closing JUMP-WHEN
        if not req("shape:length", "", len(res_body) == len(orig_body) + 4): return
        mv, lb, sub, jw = res_body[0], res_body[1], res_body[-2], res_body[-1]
        ok = mv[0] == "Move" and lb[0] == "Label" and sub[0] == "Arithmetic" and jw[0] == "JumpWhen"
        if not req("shape:kinds", "", ok): return
        src = fld(td, mv[1][0], "Move", "source")
        req("counter-initialised-with-n", "", src[0] == "LiteralInteger" and tree_eq(src[1][0], z3.ZeroExt(32, n), m))
        req("body-in-order", "", tree_eq(res_body[2:-2], list(orig_body), m))
        s = sub[1][0]
        req("decrement-by-one", "", fld(td, s, "Arithmetic", "operator")[0] == "Subtract" and tree_eq(fld(td, s, "Arithmetic", "source"), ("LiteralInteger", [1]), m))
        req("jump-back-to-start", "", tree_eq(fld(td, jw[1][0], "JumpWhen", "target"), lb[1][0][1][0], m))


class C33(Check):
    id = "C33"
    title = "Wrapping a program in a loop repeats its body exactly n times"
    functions = ["Program::wrap_in_loop", "Program::clone_without_body_instructions", "Program::add_instructions", "<Program as Clone>::clone", "<Program as PartialEq>::eq"]
    assumptions = ["bodies of <= 2 instructions (gate, pragma, MOVE / MEASURE into another region, NOP) with <= 2 definitions; counter region `loop_ctr` and label `loop_start` unused by the body",
                   "n symbolic (32 bits): shape obligations decided by z3 for every n >= 2; n in {0,1,2,3,5} concrete: the result is executed by a 25-line interpreter of the five control instructions "
                   "(JUMP-WHEN jumps while the counter is non-zero)"]
    outside = ["bodies that touch the counter or the start label", "bodies with their own control flow", "iteration counts executed concretely beyond 5 (covered by the symbolic shape obligations)"]
    sample_rate = 8
    max_paths = {"quick": 400000, "thorough": 4000000}

    def bounds(self, tier):
        return {"body": "<= 2", "definitions": "<= 2", "n": ["symbolic u32", 0, 1, 2, 3, 5]}

    def setup(self, world, runner, tier):
        self.td = world.td
        parse_templates(runner, world.td, BODY + DEFS)

    def path(self, m):
        td = m.td
        nd = m.choose([(k, None) for k in range(0, 3)])
        dnames = [m.choose([(t.name, None) for t in DEFS]) for _ in range(nd)]
        nb = m.choose([(k, None) for k in range(0, 3)])
        bnames = [m.choose([(t.name, None) for t in BODY]) for _ in range(nb)]
        nmode = m.choose([(x, None) for x in ("sym", 0, 1, 2, 3, 5)])
        m.ctx = {"defs": dnames, "body": bnames, "n": nmode}
        by = {t.name: t for t in BODY + DEFS}
        ins = [instantiate(m, by[nm], f"i{i}_")[0] for i, nm in enumerate(dnames + bnames)]
        n = m.fresh_bv("n", 32) if nmode == "sym" else nmode
        script = [["from", "p", list(range(len(ins)))], ["wrap_in_loop", "w", "p", n], ["to_instructions", "p"], ["body", "p"], ["to_instructions", "w"], ["body", "w"], ["eq", "w", "p"]]
        obs = run_script(m, script, ins)
        if nmode == "sym":
            # the implementation matches on 0 / 1 / other: the symbolic path is the `other` arm
            if not m.feasible(z3.UGE(n, 2)): raise PathEnd("n in {0, 1}: covered by the concrete modes")
            m.assume(z3.UGE(n, 2))
        oracle(lambda k, d, g: m.require(k, d, g), td, n, obs[0], obs[1], obs[2], obs[3], obs[4], m)
        if m.want_sample() and m._check() == z3.sat:
            zm = m.solver.model()
            mdl = m.model_dict(zm); mdl["_ctx"] = m.ctx
            c = self.case("sample", "", mdl)
            c["obs"] = json_tree(eval_tree(obs[:4], zm, None))
            return c
        return None

    def case(self, kind, detail, model):
        ctx = model["_ctx"]
        by = {t.name: t for t in BODY + DEFS}
        texts = [by[nm].render(hole_values(by[nm], f"i{i}_", model)) for i, nm in enumerate(ctx["defs"] + ctx["body"])]
        n = model.get("n", 2) if ctx["n"] == "sym" else ctx["n"]
        return {"texts": texts, "n": n, "kind": kind, "detail": detail}

    def native(self, runner, case):
        k = len(case["texts"])
        script = [["from", "p", list(range(k))], ["wrap_in_loop", "w", "p", case["n"]], ["to_instructions", "p"], ["body", "p"], ["to_instructions", "w"], ["body", "w"], ["eq", "w", "p"]]
        return native_script(runner, script, case["texts"])

    def confirm(self, runner, case):
        obs, raw = self.native(runner, case)
        if obs is None:
            if "panic" in raw or "crash" in raw: return True, "panic", f"wrap_in_loop panics: {raw} on {case}"
            return None, "input", str(raw)[:300]
        col = Collect()
        n = case["n"]
        oracle(col, self.td, n if n <= 40 else z3.BitVecVal(n, 32), obs[0], obs[1], obs[2], obs[3], obs[4])
        if not col.failed: return False, "", "native run satisfies the oracle"
        kind, detail = col.failed[0]
        return True, kind, f"{kind} {detail} fails for wrap_in_loop({case['texts']}, n={n}): body={raw['out'][3]}"

    def validate(self, runner, sample):
        obs, raw = self.native(runner, sample)
        if obs is None: return f"native failed: {raw}"
        a = json_tree(obs[:4])
        if a != sample["obs"]: return f"listings differ for {sample['texts']} n={sample['n']}: {tree_diff(a, sample['obs'])}"
        return None

    def canary(self, runner, tier):
        case = {"texts": ["X 0"], "n": 3}
        obs, raw = self.native(runner, case)
        col = Collect()
        oracle(col, self.td, 2, obs[0], obs[1], obs[2], obs[3], obs[4])        # the body runs 3 times, the oracle is told n = 2
        return True if any(k == "body-executed-n-times" for k, _ in col.failed) else "oracle accepted a wrong iteration count"


CHECK = C33()
