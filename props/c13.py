"""C13 — substitution, evaluation and memory-reference listing agree."""
from common import *
import struct as _struct

VARS, REGS = ["x", "y"], ["a", "b"]
FUNCS = ["Cis", "Cosine", "Exponent", "Sine", "SquareRoot"]
INFIX = ["Caret", "Plus", "Minus", "Slash", "Star"]
PREFIX = ["Plus", "Minus"]
FP = z3.Float64()
UF_FN = [z3.Function(f"fn_{p}", z3.IntSort(), FP, FP, FP) for p in ("re", "im")]
UF_INFIX = [z3.Function(f"infix_{p}", z3.IntSort(), FP, FP, FP, FP, FP) for p in ("re", "im")]


def _fpv(x):
    return x if is_sym(x) else z3.FPVal(x, FP)


def _tag(m, v):
    v = deref(v)
    if isinstance(v, Agg): return v.tag if v.tag is not None else v.symtag
    return v


def uf_function(m, f, arg):
    """stub for expression::calculate_function: an uninterpreted function of (function, re, im)"""
    a = deref(arg)
    t = _tag(m, f)
    t = z3.IntVal(t) if isinstance(t, int) else t
    return Agg("Complex", None, [u(t, _fpv(a.fields[0]), _fpv(a.fields[1])) for u in UF_FN])


def uf_infix(m, l, op, r):
    """stub for expression::calculate_infix: an uninterpreted function of (operator, left, right)"""
    a, b = deref(l), deref(r)
    t = _tag(m, op)
    t = z3.IntVal(t) if isinstance(t, int) else t
    return Agg("Complex", None, [u(t, _fpv(a.fields[0]), _fpv(a.fields[1]), _fpv(b.fields[0]), _fpv(b.fields[1])) for u in UF_INFIX])


def install_stubs(world):
    for k in ("calculate_function", "expression::calculate_function"): world.models[k] = uf_function
    for k in ("calculate_infix", "expression::calculate_infix"): world.models[k] = uf_infix


def sym_enum(m, enum, name):
    names = m.td.enums[enum]
    v = m.fresh_int(name, 0, len(names))
    return Agg(enum, None, None, symtag=v, alts={x: [] for x in names})


def arc(v): return Agg("ArcIntern", None, [v])


def build(m, depth, pid="e", leaf_kinds=("num", "pi", "var", "addr"), node_kinds=("prefix", "infix", "call")):
    """(Expression value, shape).  Node kinds are driver choices; operators, functions, names, indices and numbers are solver variables."""
    td = m.td
    E = td.enums["Expression"]
    kinds = list(leaf_kinds) + (list(node_kinds) if depth > 0 else [])
    k = m.choose([(x, None) for x in kinds])
    mk = lambda variant, *f: Agg("Expression", E.index(variant), list(f))
    if k == "num":
        re, im = m.fresh_fp(pid + "_re"), m.fresh_fp(pid + "_im")
        return mk("Number", Agg("Complex", None, [re, im])), ("num", pid)
    if k == "pi": return mk("PiConstant"), ("pi",)
    if k == "var":
        name = Str(None, m.fresh_int(pid + "_name", 0, len(VARS)), VARS)
        return mk("Variable", name), ("var", pid, name)
    if k == "addr":
        name = Str(None, m.fresh_int(pid + "_name", 0, len(REGS)), REGS)
        idx = m.fresh_bv(pid + "_idx", 64)
        mr = Agg("MemoryReference", None, [None, None])
        mr.fields[td.structs["MemoryReference"].index("name")] = name
        mr.fields[td.structs["MemoryReference"].index("index")] = idx
        return mk("Address", mr), ("addr", pid, name, idx)
    if k == "prefix":
        op = sym_enum(m, "PrefixOperator", pid + "_op")
        c, cs = build(m, depth - 1, pid + "0", leaf_kinds, node_kinds)
        s = Agg("PrefixExpression", None, [None, None])
        s.fields[td.structs["PrefixExpression"].index("operator")] = op
        s.fields[td.structs["PrefixExpression"].index("expression")] = arc(c)
        return mk("Prefix", s), ("prefix", pid, cs)
    if k == "call":
        f = sym_enum(m, "ExpressionFunction", pid + "_f")
        c, cs = build(m, depth - 1, pid + "0", leaf_kinds, node_kinds)
        s = Agg("FunctionCallExpression", None, [None, None])
        s.fields[td.structs["FunctionCallExpression"].index("function")] = f
        s.fields[td.structs["FunctionCallExpression"].index("expression")] = arc(c)
        return mk("FunctionCall", s), ("call", pid, cs)
    op = sym_enum(m, "InfixOperator", pid + "_op")
    l, ls = build(m, depth - 1, pid + "0", leaf_kinds, node_kinds)
    r, rs = build(m, depth - 1, pid + "1", leaf_kinds, node_kinds)
    s = Agg("InfixExpression", None, [None, None, None])
    s.fields[td.structs["InfixExpression"].index("left")] = arc(l)
    s.fields[td.structs["InfixExpression"].index("operator")] = op
    s.fields[td.structs["InfixExpression"].index("right")] = arc(r)
    return mk("Infix", s), ("infix", pid, ls, rs)


def leaves(shape, kind):
    if shape[0] == kind: return [shape]
    out = []
    for c in shape[2:] if shape[0] in ("prefix", "call", "infix") else []:
        out += leaves(c, kind)
    return out


def fbits(x):
    return "%016x" % _struct.unpack("<Q", _struct.pack("<d", x))[0]


def shape_json(shape, model):
    """JSON tree for the native builder under a concrete model"""
    k = shape[0]
    def fv(name):
        v = model.get(name)
        return "%016x" % v[1] if isinstance(v, (tuple, list)) else fbits(0.0)
    if k == "num": return {"k": "num", "re": fv(shape[1] + "_re"), "im": fv(shape[1] + "_im")}
    if k == "pi": return {"k": "pi"}
    if k == "var": return {"k": "var", "name": VARS[model.get(shape[1] + "_name", 0)]}
    if k == "addr": return {"k": "addr", "name": REGS[model.get(shape[1] + "_name", 0)], "index": model.get(shape[1] + "_idx", 0)}
    if k == "prefix": return {"k": "prefix", "op": PREFIX[model.get(shape[1] + "_op", 0)], "e": shape_json(shape[2], model)}
    if k == "call": return {"k": "call", "f": FUNCS[model.get(shape[1] + "_f", 0)], "e": shape_json(shape[2], model)}
    return {"k": "infix", "op": INFIX[model.get(shape[1] + "_op", 0)], "l": shape_json(shape[2], model), "r": shape_json(shape[3], model)}


def json_leaves(j, kind):
    if j["k"] == kind: return [j]
    out = []
    for c in ("e", "l", "r"):
        if c in j: out += json_leaves(j[c], kind)
    return out


class C13(Check):
    id = "C13"
    title = "Substitution, evaluation and memory-reference listing agree"
    functions = ["Expression::evaluate::<String, &str>", "Expression::substitute_variables::<String>", "Expression::memory_references", "<MemoryReferences as Iterator>::next"]
    assumptions = ["expression trees of depth <= D whose node kinds are enumerated and whose operators, functions, variable / region names (two each), indices (all u64) and number "
                   "literals (all doubles) are solver variables", "every partial assignment: each variable bound or not, each region absent or present with 0..2 cells, values arbitrary doubles",
                   "stub: calculate_function and calculate_infix are uninterpreted functions of their arguments (the property compares two evaluations of the same operations, it does not "
                   "depend on what the operations compute); unary minus is exact", "memory references are compared in left-to-right order (a different order would be reported as inconclusive)"]
    outside = ["trees deeper than D", "the numeric results of the arithmetic kernels (stubbed)"]
    D = {"quick": 2, "thorough": 3}
    sample_rate = 8
    max_paths = {"quick": 600000, "thorough": 8000000}

    def bounds(self, tier):
        return {"depth": f"<= {self.D[tier]}", "variables": VARS, "regions": REGS, "region_cells": "0..2", "numbers": "all f64 pairs", "indices": "all u64"}

    def setup(self, world, runner, tier):
        self.td = world.td
        install_stubs(world)

    def path(self, m):
        td = m.td
        e, shape = build(m, self.D[m.tier])
        bound = [m.choose([(True, None), (False, None)]) for _ in VARS]
        cells = [m.choose([(None, None), (0, None), (2, None)] + ([(1, None)] if m.tier != "quick" else [])) for _ in REGS]
        m.ctx = {"shape": shape_repr(shape), "bound": bound, "cells": cells}
        m._shape = shape
        vals = {v: Agg("Complex", None, [m.fresh_fp(f"v_{v}_re"), m.fresh_fp(f"v_{v}_im")]) for v, b in zip(VARS, bound) if b}
        vars_map = MapObj("hash", [[Str(v), c] for v, c in vals.items()])
        mem_map = MapObj("hash", [[Str(r), VecObj([m.fresh_fp(f"m_{r}_{i}") for i in range(n)])] for r, n in zip(REGS, cells) if n is not None])
        E = td.enums["Expression"]
        sub_map = MapObj("hash", [[Str(v), Agg("Expression", E.index("Number"), [copy_val(c)])] for v, c in vals.items()])
        r1 = m.call_path("Expression::evaluate::<String, &str>", [Ref([e], 0), Ref([vars_map], 0), Ref([mem_map], 0)])
        e2 = m.call_path("Expression::substitute_variables::<String>", [Ref([e], 0), Ref([sub_map], 0)])
        r2 = m.call_path("Expression::evaluate::<String, &str>", [Ref([e2], 0), Ref([MapObj("hash", [])], 0), Ref([mem_map], 0)])
        m.force_tag(r1); m.force_tag(r2)
        # evaluation succeeds iff everything is supplied
        supplied = True
        for leaf in leaves(shape, "var"):
            if not any(b and m.branch_bool(leaf[2].sym == i) for i, b in enumerate(bound)): supplied = False
        for leaf in leaves(shape, "addr"):
            ok = False
            for i, n in enumerate(cells):
                if n is not None and m.branch_bool(leaf[2].sym == i) and m.branch_bool(z3.ULT(leaf[3], z3.BitVecVal(n, 64))): ok = True
            if not ok: supplied = False
        m.require("evaluates-iff-supplied", "", (r1.tag == 0) == supplied)
        if m.require("substitute-then-evaluate:same-verdict", "", r1.tag == r2.tag) and r1.tag == 0:
            a, b = r1.fields[0], r2.fields[0]
            m.require("substitute-then-evaluate:same-value", "", and_all([_fpv(a.fields[0]) == _fpv(b.fields[0]), _fpv(a.fields[1]) == _fpv(b.fields[1])]))
        # memory references
        it = m.call_path("Expression::memory_references", [Ref([e], 0)])
        refs = []
        for _ in range(2 ** (self.D[m.tier] + 1)):
            nx = m.call_path("<MemoryReferences as Iterator>::next", [Ref([it], 0)])
            m.force_tag(nx)
            if nx.tag == 0: break
            refs.append(to_tree(m, nx.fields[0]))
        want = [("MemoryReference", [l[2], l[3]]) for l in leaves(shape, "addr")]
        if m.require("memory-references:count", "", len(refs) == len(want)):
            m.require("memory-references:elements", "", and_all(tree_eq(x, y, m) for x, y in zip(refs, want)))
        if m.want_sample() and m._check() == z3.sat:
            zm = m.solver.model()
            mdl = m.model_dict(zm); mdl["_ctx"] = m.ctx
            c = self.case("sample", "", mdl)
            c["verdicts"] = [r1.tag == 0, r2.tag == 0]
            c["refs"] = json_tree(eval_tree(refs, zm, None))
            return c
        return None

    def case(self, kind, detail, model):
        ctx = model["_ctx"]
        shape = shape_parse(ctx["shape"])
        fv = lambda name: ("%016x" % model[name][1]) if isinstance(model.get(name), (tuple, list)) else fbits(0.0)
        return {"expr": shape_json(shape, model),
                "vars": {v: [fv(f"v_{v}_re"), fv(f"v_{v}_im")] for v, b in zip(VARS, ctx["bound"]) if b},
                "mem": {r: [fv(f"m_{r}_{i}") for i in range(n)] for r, n in zip(REGS, ctx["cells"]) if n is not None}, "kind": kind, "detail": detail}

    def native(self, runner, case):
        r = runner.call({"op": "expression_ops", "expr": case["expr"], "vars": case["vars"], "mem": case["mem"]})
        if "evaluate" not in r: return None, r
        return r, r

    def confirm(self, runner, case):
        r, raw = self.native(runner, case)
        if r is None:
            if "panic" in raw or "crash" in raw: return True, "panic", f"panics on {case}: {raw}"
            return None, "input", str(raw)[:300]
        j = case["expr"]
        supplied = all(l["name"] in case["vars"] for l in json_leaves(j, "var")) and all(l["name"] in case["mem"] and l["index"] < len(case["mem"][l["name"]]) for l in json_leaves(j, "addr"))
        ok1, ok2 = "ok" in r["evaluate"], "ok" in r["evaluate_substituted"]
        if ok1 != supplied: return True, "evaluates-iff-supplied", f"evaluate is {'Ok' if ok1 else 'Err'} but the assignment is {'complete' if supplied else 'incomplete'}: {case} -> {r['evaluate']}"
        if ok1 != ok2: return True, "substitute-then-evaluate:same-verdict", f"{r['evaluate']} vs {r['evaluate_substituted']} for {case}"
        if ok1 and r["evaluate"]["ok"] != r["evaluate_substituted"]["ok"]: return True, "substitute-then-evaluate:same-value", f"{r['evaluate']} vs {r['evaluate_substituted']} for {case}"
        want = sorted([l["name"], l["index"]] for l in json_leaves(j, "addr"))
        got = sorted(r["memory_references"])
        if got != want: return True, "memory-references", f"reported {r['memory_references']} but the expression contains {want}: {case}"
        return False, "", "native run satisfies the oracle"

    def validate(self, runner, sample):
        r, raw = self.native(runner, sample)
        if r is None: return f"native failed: {raw}"
        if ["ok" in r["evaluate"], "ok" in r["evaluate_substituted"]] != sample["verdicts"]: return f"verdicts differ on {sample['expr']}: native {r['evaluate']} / {r['evaluate_substituted']} mirsym {sample['verdicts']}"
        refs = [[t[1][0], t[1][1]] if isinstance(t, (list, tuple)) and len(t) == 2 and t[0] == "MemoryReference" else t for t in sample["refs"]]
        if r["memory_references"] != refs: return f"memory references differ on {sample['expr']}: native {r['memory_references']} mirsym {refs}"
        return None

    def canary(self, runner, tier):
        case = {"expr": {"k": "infix", "op": "Plus", "l": {"k": "var", "name": "x"}, "r": {"k": "addr", "name": "a", "index": 1}}, "vars": {"x": [fbits(1.0), fbits(0.0)]}, "mem": {"a": [fbits(2.0)]}}
        v = self.confirm(runner, case)
        if v[0] is not False: return f"canary: the reference disagrees with a correct run: {v}"
        r, _ = self.native(runner, case)
        return True if "err" in r["evaluate"] else "evaluate accepted an out-of-range index"


def shape_repr(s):
    return [s[0]] + [shape_repr(x) if isinstance(x, tuple) else (x if isinstance(x, str) else None) for x in s[1:]]


def shape_parse(r):
    return tuple([r[0]] + [shape_parse(x) if isinstance(x, list) else x for x in r[1:]])


CHECK = C13()
