"""C01 — parsing never panics or aborts (token level): every token slice of length <= L through the real parser."""
from tokens import *

ENTRIES = {
    "program": ("parse_instructions", "program"),
    "expression": ("parse_expression", "expression"),
    "memory_reference": ("parse_memory_reference", "memory_reference"),
    "frame_identifier": ("parse_frame_identifier", "frame_identifier"),
}


class C01(Check):
    id = "C01"
    title = "Parsing never panics or aborts on any input text"
    functions = ["Program::{new,add_instructions,add_instruction} (after a successful parse with nothing left over)", "parser::instruction::{parse_instructions,parse_instruction,parse_block,parse_block_instruction}", "parser::command::*", "parser::common::*",
                 "parser::expression::*", "parser::gate::*", "token!/expected_token!/unexpected_eof! expansions"]
    assumptions = ["input = token slices (the lexer's output type); every token variant and payload is a solver variable (64-bit integers, finite non-negative doubles, "
                   "identifier payloads from a 13-name alphabet (with the reserved pragma name EXTERN))", "nom combinators modelled by their documented semantics (Error backtracks, Failure does not)",
                   "a counterexample is reported only if some text lexes (natively, verification hook) to exactly that token slice and the public from_str panics on it"]
    outside = ["the lexer itself (characters -> tokens: nom string combinators, lexical number conversion)", "token slices longer than the bound",
               "stack exhaustion on deeply nested input", "error conversion / Display of errors after parsing", "quil-cli"]
    L = {"quick": 4, "thorough": 6}
    sample_rate = 64
    max_paths = {"quick": 300000, "thorough": 5000000}
    no_obligations_ok = False

    def bounds(self, tier):
        return {"token_slice_length": f"<= {self.L[tier]}", "entries": list(ENTRIES), "identifier_alphabet": ALPHA}

    def setup(self, world, runner, tier):
        self.td = world.td
        self.lex = Lexemes(runner, world.td)

    def path(self, m):
        entry = m.choose([(e, None) for e in ENTRIES])
        lmax = self.L[m.tier] if entry == "program" else min(self.L[m.tier], 4)
        L = m.choose([(k, None) for k in range(0, lmax + 1)])
        m.ctx = {"entry": entry, "L": L}
        toks = VecObj([sym_token(m, i) for i in range(L)])
        fn = ENTRIES[entry][0]
        before = len(m.findings)
        try:
            r = m.call_path(fn, [Slice(toks, 0, L)])
        except Panic:
            m.world.count("obligations")
            raise
        m.world.count("obligations"); m.world.count("discharged")      # this path returns Ok or Err
        m.force_tag(r)
        if entry == "program" and r.tag == 0:
            # Program::from_str goes on to build the program from the parsed instructions (when nothing is left over)
            rest = deref(r.fields[0].fields[0])
            if isinstance(rest, Slice) and len(rest) == 0:
                m.world.count("obligations")
                try:
                    cell = [m.call_path("Program::new", [])]
                    m.call_path("Program::add_instructions", [Ref(cell, 0), r.fields[0].fields[1]])
                    m.world.count("discharged"); m.world.count("program_built")
                except Unsupported as e:
                    # recorded, not claimed: the build step of this path uses a construct without a model
                    m.world.count("program_build_outside"); m.world.count("discharged")
        if m.want_sample() and m._check() == z3.sat:
            mdl = m.model_dict(m.solver.model())
            ct = concrete_tokens(self.td, mdl, L)
            text = render(self.lex, ct)
            leftover = None
            if r.tag == 0:
                rest = deref(r.fields[0].fields[0])
                leftover = len(rest) if isinstance(rest, Slice) else None
            return {"entry": entry, "tokens": [list(t) for t in ct], "text": text, "ok": r.tag == 0, "leftover": leftover}
        return None

    def case(self, kind, detail, model):
        if not (kind.startswith("panic") or kind.startswith("assert") or kind.startswith("unreachable")): return None
        ctx = model["_ctx"]
        ct = concrete_tokens(self.td, model, ctx["L"])
        return {"entry": ctx["entry"], "tokens": [list(t) for t in ct], "text": render(self.lex, ct), "kind": kind, "site": detail}

    def lexes_back(self, runner, case):
        if case["text"] is None: return False
        r = runner.call({"op": "lex", "texts": [case["text"]]})["results"][0]
        return "ok" in r and same_tokens(self.lex, [tuple(t) for t in case["tokens"]], r["ok"])

    def confirm(self, runner, case):
        if not self.lexes_back(runner, case):
            return None, "no-text", "no rendering of this token slice lexes back to it (outside the claim)"
        found = []
        for profile_runner in (runner,):
            r = profile_runner.call({"op": "parse_any", "kind": ENTRIES[case["entry"]][1], "text": case["text"]})
            if "panic" in r or "crash" in r: found.append(r)
        if not found: return False, "", f"from_str({case['text']!r}) does not panic natively"
        kind = case["kind"].split(":")[0]
        site = case["site"].split("::")[-1] if case["site"] else ""
        fnname = re.sub(r"<impl at [^>]*>::", "", case["site"] or "")
        role = f"{kind}:{fnname}"
        return True, role, f"{ENTRIES[case['entry']][1]}::from_str({case['text']!r}) -> {found[0]}"

    def validate(self, runner, sample):
        if sample["text"] is None: return "skip"
        if not self.lexes_back(runner, sample): return "skip"
        r = runner.call({"op": "parse_any", "kind": ENTRIES[sample["entry"]][1], "text": sample["text"]})
        if "panic" in r or "crash" in r: return f"native panics where mirsym returns: {r}"
        native_ok = "ok" in r
        mir_ok = sample["ok"] and (sample["leftover"] in (0, None))
        if sample["entry"] == "program" and sample["ok"] != native_ok: return f"Ok/Err differs: mirsym ok={sample['ok']} native={r}"
        if sample["entry"] != "program" and mir_ok != native_ok: return f"Ok/Err differs: mirsym ok={mir_ok} native={r}"
        return None

    def canary(self, runner, tier):
        r = runner.call({"op": "lex", "texts": ["ADD ro[0] 1"]})["results"][0]
        toks = [("Command", "Add"), ("Identifier", "ro"), ("LBracket", None), ("Integer", 0), ("RBracket", None), ("Integer", 1)]
        return True if same_tokens(self.lex, toks, r.get("ok", [])) and not same_tokens(self.lex, toks[:-1], r.get("ok", [])) else "token comparison is vacuous"


CHECK = C01()
