"""Group E — calibration expansion (C17, C18, C19): shared templates, reference expander, driver."""
from common import *
from c26 import fld, WF
from c16 import gate_reference, measure_reference

G2 = ["RX", "RY"]
Q = [0, 1]
GATE_HEADERS = {"hf": ("DEFCAL {g} {q}:", {"g": ("str", G2), "q": ("int", Q)}),
                "hv": ("DEFCAL {g} v:", {"g": ("str", G2)}),
                "hpv": ("DEFCAL {g}(%t) v:", {"g": ("str", G2)}),
                "hfv": ("DEFCAL {g} {q} v:", {"g": ("str", G2), "q": ("int", Q)})}
GATE_BODIES = {"x": (["{h} v"], {"h": ("str", G2)}),
               "xfixed": (["{h} {r}"], {"h": ("str", G2), "r": ("int", Q)}),
               "grow": (["{h}(%t+1) v"], {"h": ("str", G2)}),
               "fence": (["FENCE v"], {}),
               "shift": (['SHIFT-PHASE v "rf" %t'], {}),
               "meas": (["MEASURE v ro[0]"], {}),
               "reset": (["RESET v"], {}),
               "decl-x": (["DECLARE tmp REAL[1]", "{h} v"], {"h": ("str", G2)}),
               "x-fence": (["{h} v", "FENCE v"], {"h": ("str", G2)}),
               "extern-x": (['PRAGMA EXTERN foo "(x : INTEGER)"', "{h} v", "FENCE v"], {"h": ("str", G2)}),          # hoisted, but not a DECLARE
               "x-decl-fence": (["{h} v", "DECLARE tmp REAL[1]", "FENCE v"], {"h": ("str", G2)}),                  # a call directly before a hoisted DECLARE
               "fence-x-fence": (["FENCE v", "{h} v", "FENCE v"], {"h": ("str", G2)}),
               "three": (["FENCE v", "RESET v", "FENCE v"], {}),
               "pulse": (['PULSE v "rf" ' + WF], {}),
               # one instruction of every remaining kind that can carry a qubit variable (frame updates, the two-frame SWAP-PHASES, both DELAY forms)
               "kinds": (['SWAP-PHASES v "rf" v "ro"', 'SET-FREQUENCY v "rf" %t', 'SHIFT-FREQUENCY v "rf" 1.0', 'SET-PHASE v "rf" 1.0', 'SET-SCALE v "rf" 1.0',
                          'DELAY v 1.0', 'DELAY v "rf" 1.0'], {})}
MEAS_HEADERS = {"mv": ("DEFCAL MEASURE v addr:", {}), "mf": ("DEFCAL MEASURE {q} addr:", {"q": ("int", Q)}),
                "mv0": ("DEFCAL MEASURE v:", {})}          # measurement for effect (no target)
MEAS_BODIES = {"cap-addr": (['CAPTURE v "ro" ' + WF + " addr[0]"], {}),
               "cap-other": (['CAPTURE v "ro" ' + WF + " other[0]"], {}),
               "loadmem": (['PRAGMA LOAD-MEMORY v "addr"'], {}),
               "fence": (["FENCE v"], {}),
               "x": (["{h} v"], {"h": ("str", G2)})}          # a gate inside a measure calibration: cycles that alternate between the two kinds
BODY = [Tpl("g", "{g} {q}", g=("str", G2), q=("int", Q)), Tpl("gp", "{g}(2.0) {q}", g=("str", G2), q=("int", Q)),
        Tpl("m", "MEASURE {q} ro[1]", q=("int", Q)), Tpl("m0", "MEASURE {q}", q=("int", Q)), Tpl("h", "H 1"), Tpl("g2", "{g} {q} {r}", g=("str", G2), q=("int", Q), r=("int", Q))]


def make_cal_templates():
    out = []
    for hn, (ht, hh) in GATE_HEADERS.items():
        for bn, (bl, bh) in GATE_BODIES.items():
            out.append(Tpl(f"{hn}|{bn}", ht + "".join("\n\t" + l for l in bl), **{**hh, **bh}))
    for hn, (ht, hh) in MEAS_HEADERS.items():
        for bn, (bl, bh) in MEAS_BODIES.items():
            out.append(Tpl(f"{hn}|{bn}", ht + "".join("\n\t" + l for l in bl), **{**hh, **bh}))
    return out


CALS = make_cal_templates()
QUICK_BODIES = ("x", "grow", "fence", "shift", "meas", "decl-x", "cap-addr", "cap-other", "loadmem")


class Recursive(Exception):
    pass


def subst(t, qmap, emap):
    """replace Qubit::Variable(name) / Expression::Variable(name) nodes by name (the two alphabets are disjoint)"""
    if isinstance(t, tuple):
        if t[0] == "Variable" and len(t[1]) == 1 and isinstance(t[1][0], str):
            if t[1][0] in qmap: return qmap[t[1][0]]
            if t[1][0] in emap: return emap[t[1][0]]
        return (t[0], [subst(x, qmap, emap) for x in t[1]])
    if isinstance(t, list): return [subst(x, qmap, emap) for x in t]
    return t


def subst_target(t, name, target):
    """replace memory references named `name` by the measurement target (a MemoryReference tree)"""
    if isinstance(t, tuple):
        if t[0] == "MemoryReference" and len(t[1]) == 2 and t[1][0] == name: return target
        return (t[0], [subst_target(x, name, target) for x in t[1]])
    if isinstance(t, list): return [subst_target(x, name, target) for x in t]
    return t


def ref_expand(td, decide, gcals, mcals, ins, active, m=None, depth=0):
    """reference expansion of one instruction: list of instruction trees, or None when no calibration matches.
    Raises Recursive when a calibration is re-entered while it is being expanded (its body is unconditional, so the
    expansion could never end)."""
    k = ins[0]
    if k == "Gate":
        i = gate_reference(td, decide, gcals, ins, m)
        if i is None: return None
        key = ("g", i)
        if key in active: raise Recursive()
        cal = gcals[i][1][0]
        ident = fld(td, cal, "CalibrationDefinition", "identifier")
        cq, cp = fld(td, ident, "CalibrationIdentifier", "qubits"), fld(td, ident, "CalibrationIdentifier", "parameters")
        g = ins[1][0]
        gq, gp = fld(td, g, "Gate", "qubits"), fld(td, g, "Gate", "parameters")
        qmap = {c[1][0]: a for c, a in zip(cq, gq) if c[0] == "Variable"}
        emap = {c[1][0]: a for c, a in zip(cp, gp) if c[0] == "Variable"}
        body = [subst(b, qmap, emap) for b in fld(td, cal, "CalibrationDefinition", "instructions")]
    elif k == "Measurement":
        i = measure_reference(td, decide, mcals, ins, m)
        if i is None: return None
        key = ("m", i)
        if key in active: raise Recursive()
        cal = mcals[i][1][0]
        ident = fld(td, cal, "MeasureCalibrationDefinition", "identifier")
        cq, ct = fld(td, ident, "MeasureCalibrationIdentifier", "qubit"), fld(td, ident, "MeasureCalibrationIdentifier", "target")
        ms = ins[1][0]
        mq, mt = fld(td, ms, "Measurement", "qubit"), fld(td, ms, "Measurement", "target")
        qmap = {cq[1][0]: mq} if cq[0] == "Variable" else {}
        body = [subst(b, qmap, {}) for b in fld(td, cal, "MeasureCalibrationDefinition", "instructions")]
        if ct[0] == "Some" and mt[0] == "Some":
            body = [subst_target(b, ct[1][0], mt[1][0]) for b in body]
            # PRAGMA LOAD-MEMORY "<target name>" carries the target as text
            out = []
            for b in body:
                if b[0] == "Pragma":
                    p = b[1][0]
                    name, args, data = (fld(td, p, "Pragma", x) for x in ("name", "arguments", "data"))
                    if name == "LOAD-MEMORY" and data[0] == "Some" and data[1][0] == ct[1][0]:
                        tn, ti = mt[1][0][1]
                        f = list(p[1]); f[td.structs["Pragma"].index("data")] = ("Some", [f"{tn}[{ti}]"])
                        b = ("Pragma", [("Pragma", f)])
                out.append(b)
            body = out
    else:
        return None
    res = []
    for b in body:
        e = ref_expand(td, decide, gcals, mcals, b, active | {key}, m, depth + 1)
        res += [b] if e is None else e
    return res


def is_extern(td, x):
    return x[0] == "Pragma" and fld(td, x[1][0], "Pragma", "name") == "EXTERN"


def in_body(td, x):
    """does add_instruction put this instruction into the program body?"""
    return x[0] != "Declaration" and not is_extern(td, x)


def ref_first_level(td, decide, gcals, mcals, ins, m=None):
    """for a body instruction that a calibration expands: the number of body instructions each first-level instruction of the
    calibration's (substituted) body contributes, with whether it is itself expanded; None when `ins` is not expanded"""
    k = ins[0]
    if k == "Gate":
        i = gate_reference(td, decide, gcals, ins, m)
        if i is None: return None
        cal = gcals[i][1][0]
        ident = fld(td, cal, "CalibrationDefinition", "identifier")
        cq, cp = fld(td, ident, "CalibrationIdentifier", "qubits"), fld(td, ident, "CalibrationIdentifier", "parameters")
        g = ins[1][0]
        qmap = {c[1][0]: a for c, a in zip(cq, fld(td, g, "Gate", "qubits")) if c[0] == "Variable"}
        emap = {c[1][0]: a for c, a in zip(cp, fld(td, g, "Gate", "parameters")) if c[0] == "Variable"}
        body = [subst(b, qmap, emap) for b in fld(td, cal, "CalibrationDefinition", "instructions")]
        key = ("g", i)
    else:
        return None          # measure calibrations of the alphabet do not nest further
    out = []
    for b in body:
        try:
            e = ref_expand(td, decide, gcals, mcals, b, frozenset({key}), m)
        except Recursive:
            return None
        flat = [b] if e is None else e
        out.append((e is not None, sum(1 for x in flat if in_body(td, x)), e is not None and any(not in_body(td, x) for x in flat)))
    return out


def ref_program(td, decide, gcals, mcals, body, m=None):
    """(expanded body, hoisted declaration names) or Recursive"""
    out, decls = [], []
    for ins in body:
        e = ref_expand(td, decide, gcals, mcals, ins, frozenset(), m)
        for x in ([ins] if e is None else e):
            if x[0] == "Declaration": decls.append(x[1][0][1][0])
            elif is_extern(td, x): pass          # PRAGMA EXTERN goes to the extern map, not to the body
            else: out.append(x)
    return out, decls


# ---------------------------------------------------------------------------------------------------- source map (C19)
def check_source_map(req, src_body, out_body, sm, m=None, label="", first_level=None):
    """sm: ("SourceMap", [[entries]]) tree.  Structural invariants of the statement."""
    entries = sm[1][0]
    last = -1
    covered = []
    for e in entries:
        s, t = e[1][0][1][0], e[1][1]
        if not req("sm:source-order", label, s > last): return
        last = s
        if t[0] == "Unmodified":
            ti = t[1][0][1][0]
            ok = 0 <= ti < len(out_body) and 0 <= s < len(src_body)
            if req("sm:unmodified-in-range", label, ok):
                req("sm:unmodified-identical", label, tree_eq(out_body[ti], src_body[s], m))
            covered.append((ti, ti + 1))
        else:
            exp = t[1][0]
            rng = exp[1][1]
            a, b = rng[1][0][1][0], rng[1][1][1][0]
            if not req("sm:range-nonempty", label, 0 <= a < b <= len(out_body)): continue
            covered.append((a, b))
            fl = first_level(s) if first_level is not None else None
            if fl is not None:
                # every nested call's range has the length of what that call contributed to the body (checked before the coarser
                # partition obligation, which the known finding about stale Unmodified entries also fails)
                for e2 in exp[1][2][1][0]:
                    s2, t2 = e2[1][0][1][0], e2[1][1]
                    if t2[0] == "Unmodified" or not (0 <= s2 < len(fl)): continue
                    r2 = t2[1][0][1][1]
                    req("sm:nested-rewritten-length", label, r2[1][1][1][0] - r2[1][0][1][0] == fl[s2][1])
            check_nested(req, exp, b - a, m, label)
    covered.sort()
    pos = 0
    ok = True
    for a, b in covered:
        if a != pos: ok = False
        pos = b
    req("sm:partition-of-output", label, ok and pos == len(out_body))


def check_nested(req, exp, length, m, label):
    """nested expansion records are relative to the parent range and partition 0..length"""
    entries = exp[1][2][1][0]
    if not entries: return
    covered = []
    last = -1
    for e in entries:
        s, t = e[1][0][1][0], e[1][1]
        req("sm:nested-source-order", label, s > last); last = s
        if t[0] == "Unmodified":
            ti = t[1][0][1][0]
            covered.append((ti, ti + 1))
        else:
            sub = t[1][0]
            rng = sub[1][1]
            a, b = rng[1][0][1][0], rng[1][1][1][0]
            if req("sm:nested-range-nonempty", label, 0 <= a < b <= length):
                covered.append((a, b))
                check_nested(req, sub, b - a, m, label)
    covered.sort()
    pos, ok = 0, True
    for a, b in covered:
        if a != pos: ok = False
        pos = b
    req("sm:nested-partition", label, ok and pos == length)


def check_queries(req, sm, n_src, n_out, list_sources, list_targets, label=""):
    """list_sources(t) contains s  <=>  list_targets(s) contains a location covering t"""
    def covers(loc, t):
        if loc[0] == "Unmodified": return loc[1][0][1][0] == t
        rng = loc[1][0][1][1]
        return rng[1][0][1][0] <= t < rng[1][1][1][0]
    for t in range(n_out + 1):         # n_out itself is one past the output: no location covers it
        srcs = {x[1][0] for x in list_sources[t]}
        for s in range(n_src):
            fwd = any(covers(loc, t) for loc in list_targets[s])
            req("sm:queries-inverse", label, (s in srcs) == fwd)
        if t < n_out: req("sm:every-target-has-one-source", label, len(srcs) == 1)


# ---------------------------------------------------------------------------------------------------- driver
class CalibCheck(Check):
    functions = ["Program::{expand_calibrations,expand_calibrations_with_source_map,expand_calibrations_inner,append_calibration_expansion_output_inner}",
                 "Calibrations::{expand_with_detail,expand_inner,recursively_expand_inner,get_match_for_gate,get_match_for_measurement}", "CalibrationIdentifier::matches",
                 "Instruction::apply_to_expressions", "Expression::substitute_variables", "CalibrationExpansion::remove_target_index", "SourceMap::{list_sources,list_targets}"]
    assumptions = ["programs of <= K calibrations (3 gate headers x 10 bodies, 2 measure headers x 4 bodies; names, qubits solver-chosen) and a body of <= N gate / measure instructions",
                   "reference expander written from the statement: substitution of calibration qubit / parameter variables everywhere in the body, measurement target replaces references to the target name, "
                   "repeat until no match, re-entering an active calibration = recursion"]
    outside = ["more than K calibrations, deeper nesting than K", "parameter expressions other than literals, variables and %t+1"]
    K = {"quick": 2, "thorough": 2}
    N = {"quick": 1, "thorough": 2}
    sample_rate = 32
    max_paths = {"quick": 800000, "thorough": 8000000}
    wall_cap = {"quick": 900, "thorough": 7200}
    prop = "C17"
    DEPTH = 140

    quick_bodies = QUICK_BODIES
    quick_headers = tuple(GATE_HEADERS) + tuple(MEAS_HEADERS)

    thorough_bodies = thorough_headers = None          # None = all
    sorted_shapes = {}
    quick_body = None

    def body_templates(self, tier):
        return [t for t in BODY if tier != "quick" or self.quick_body is None or t.name in self.quick_body]

    def shapes(self, tier):
        bodies, headers = (self.quick_bodies, self.quick_headers) if tier == "quick" else (self.thorough_bodies, self.thorough_headers)
        return [t for t in CALS if (bodies is None or t.name.split("|")[1] in bodies) and (headers is None or t.name.split("|")[0] in headers)]

    def bounds(self, tier):
        cs = self.shapes(tier)
        return {"calibrations": f"<= {self.K[tier]}", "body": f"<= {self.N[tier]}", "calibration_shapes": [t.name for t in cs], "body_shapes": [t.name for t in self.body_templates(tier)],
                "calibration_order": "shape indices non-decreasing (symmetry reduction)" if self.sorted_shapes.get(tier) else "any"}

    def setup(self, world, runner, tier):
        self.td = world.td
        self.cals = self.shapes(tier)
        parse_templates(runner, world.td, self.cals + BODY)

    def build(self, m):
        td = m.td
        k = m.choose([(j, None) for j in range(1, self.K[m.tier] + 1)])
        shapes, lo = [], 0
        names = [t.name for t in self.cals]
        for _ in range(k):
            s = m.choose([(x, None) for x in names[lo:]])
            shapes.append(s)
            if self.sorted_shapes.get(m.tier): lo = names.index(s)        # symmetry reduction: definition order is C16's subject
        n = m.choose([(j, None) for j in range(1, self.N[m.tier] + 1)])
        bnames = [m.choose([(t.name, None) for t in self.body_templates(m.tier)]) for _ in range(n)]
        m.ctx = {"shapes": shapes, "body": bnames}
        by = {t.name: t for t in self.cals + BODY}
        prog = m.call_path("Program::new", [])
        cell = [prog]
        for j, s in enumerate(shapes):
            a, hv = instantiate(m, by[s], f"c{j}_")
            m.call_path("Program::add_instruction", [Ref(cell, 0), a])
        for j, s in enumerate(bnames):
            a, hv = instantiate(m, by[s], f"b{j}_")
            m.call_path("Program::add_instruction", [Ref(cell, 0), a])
        return cell

    def observe(self, m, cell):
        """run both entry points; returns dict(plain=..., mapped=...) with trees; 'diverges' when the call-depth bound is hit"""
        td = m.td
        pidx = td.structs["Program"]
        obs = {}
        old = m.max_depth
        m.max_depth = m.depth + self.DEPTH
        try:
            for key, fn in (("plain", "Program::expand_calibrations"), ("mapped", "Program::expand_calibrations_with_source_map")):
                try:
                    r = m.call_path(fn, [Ref(cell, 0)])
                except Unsupported as e:
                    if "call depth bound" in str(e):
                        obs[key] = {"diverges": True}; m.depth = old - self.DEPTH if False else m.depth
                        continue
                    raise
                m.force_tag(r)
                if r.tag != 0:
                    obs[key] = {"err": to_tree(m, r.fields[0])}
                    continue
                v = r.fields[0]
                prog = v if key == "plain" else v.fields[0]
                o = {"body": to_tree(m, prog.fields[pidx.index("instructions")]),
                     "decls": [to_tree(m, kx) for kx, _ in prog.fields[pidx.index("memory_regions")].items]}
                if key == "mapped":
                    sm = v.fields[1]
                    o["source_map"] = to_tree(m, sm)
                    n_out, n_src = len(o["body"]), len(cell[0].fields[pidx.index("instructions")].items)
                    ii = lambda x: Ref([Agg("InstructionIndex", None, [x])], 0)
                    o["list_sources"] = [to_tree(m, m.call_path("SourceMap::<InstructionIndex, ExpansionResult<CalibrationExpansion>>::list_sources::<InstructionIndex>", [Ref([sm], 0), ii(t)])) for t in range(n_out + 1)]
                    o["list_targets"] = [to_tree(m, m.call_path("SourceMap::<InstructionIndex, ExpansionResult<CalibrationExpansion>>::list_targets::<InstructionIndex>", [Ref([sm], 0), ii(s)])) for s in range(n_src)]
                obs[key] = o
        finally:
            m.max_depth = old
        return obs

    def path(self, m):
        td = m.td
        cell = self.build(m)
        pidx = td.structs["Program"]
        cals_v = cell[0].fields[pidx.index("calibrations")]
        cidx = td.structs["Calibrations"]
        gcals = [("CalibrationDefinition", [to_tree(m, c)]) for c in cals_v.fields[cidx.index("calibrations")].fields[0].items]
        mcals = [("MeasureCalibrationDefinition", [to_tree(m, c)]) for c in cals_v.fields[cidx.index("measure_calibrations")].fields[0].items]
        src_body = to_tree(m, cell[0].fields[pidx.index("instructions")])
        obs = self.observe(m, cell)
        self.oracle(lambda kk, d, g: m.require(kk, d, g), m.branch_bool, td, gcals, mcals, src_body, obs, m)
        if m.want_sample() and m._check() == z3.sat:
            zm = m.solver.model()
            mdl = m.model_dict(zm); mdl["_ctx"] = m.ctx
            c = self.case("sample", "", mdl)
            c["obs"] = json_tree(eval_tree({k: ({kk: vv for kk, vv in v.items() if kk in ("body", "err", "diverges")}) for k, v in obs.items()}, zm, None))
            return c
        return None

    def oracle(self, req, decide, td, gcals, mcals, src_body, obs, m=None):
        try:
            ref = ref_program(td, decide, gcals, mcals, src_body, m)
        except Recursive:
            ref = None
        p, q = obs["plain"], obs["mapped"]
        prop = self.prop
        if prop == "C18":
            for key, o in (("plain", p), ("mapped", q)):
                req("terminates", key, not o.get("diverges"))
                if o.get("diverges"): continue
                if ref is None:
                    req("recursion-reported", key, "err" in o and o["err"][0] == "RecursiveCalibration")
                else:
                    req("no-spurious-error", key, "err" not in o)
            return
        if ref is None or p.get("diverges") or q.get("diverges"): return          # C18's subject
        if prop == "C17":
            if not req("expands", "plain", "body" in p): return
            rb, rd = ref
            if req("body-length", f"{len(rb)}", len(p["body"]) == len(rb)):
                for i, (x, y) in enumerate(zip(p["body"], rb)):
                    if not req("body-instruction", y[0], tree_eq(x, y, m)): break
            for d in rd:
                req("declaration-hoisted", "", or_any(tree_eq(d, x, m) for x in p["decls"]) if p["decls"] else False)
            if req("expands", "mapped", "body" in q):
                req("entry-points-agree", "", tree_eq(q["body"], p["body"], m))
            return
        if prop == "C19":
            if "body" not in q: return
            fl_cache = {}

            def first_level(s):
                if s not in fl_cache: fl_cache[s] = ref_first_level(td, decide, gcals, mcals, src_body[s], m) if 0 <= s < len(src_body) else None
                return fl_cache[s]
            check_source_map(req, src_body, q["body"], q["source_map"], m, first_level=first_level)
            check_queries(req, q["source_map"], len(src_body), len(q["body"]), q["list_sources"], q["list_targets"])
            return

    def case(self, kind, detail, model):
        ctx = model["_ctx"]
        by = {t.name: t for t in self.cals + BODY}
        lines = [by[s].render(hole_values(by[s], f"c{j}_", model)) for j, s in enumerate(ctx["shapes"])]
        lines += [by[s].render(hole_values(by[s], f"b{j}_", model)) for j, s in enumerate(ctx["body"])]
        return {"program": "\n".join(lines), "kind": kind, "detail": detail}

    def native(self, runner, case):
        r = runner.call({"op": "expand_calibrations", "program": case["program"]}, timeout=15)
        if "plain" not in r:
            if "crash" in r: return {"plain": {"diverges": True}, "mapped": {"diverges": True}, "crash": r["crash"]}, r
            return None, r
        obs = {}
        for key in ("plain", "mapped"):
            o = r[key]
            if "err" in o: obs[key] = {"err": parse_debug(o["err"].split("(")[0] + "()") if False else (o["err"].split("(")[0], [])}
            else:
                x = o["ok"]
                d = {"body": [parse_debug(t) for t in x["body"]], "decls": [parse_debug(t)[1][0][1][0] for t in x["listing"] if t.startswith("Declaration(")]}
                if key == "mapped":
                    d["source_map"] = parse_debug(x["source_map"])
                    d["list_sources"] = [parse_debug(t) for t in x["list_sources"]]
                    d["list_targets"] = [parse_debug(t) for t in x["list_targets"]]
                obs[key] = d
        pr = runner.call({"op": "parse_instructions", "texts": [case["program"]]})["results"][0]["ok"]
        trees = [parse_debug(t) for t in pr]
        obs["_gcals"] = [t for t in trees if t[0] == "CalibrationDefinition"]
        obs["_mcals"] = [t for t in trees if t[0] == "MeasureCalibrationDefinition"]
        obs["_src"] = [parse_debug(t) for t in r["source_body"]]
        return obs, r

    def confirm(self, runner, case):
        obs, raw = self.native(runner, case)
        if obs is None:
            if "panic" in raw: return True, "panic", f"expansion panics: {raw} on {case['program']!r}"
            return None, "input", str(raw)[:300]
        if "crash" in obs:
            if self.prop != "C18": return None, "diverges", "non-terminating input (C18)"
            return True, "terminates:crash", f"expand_calibrations does not return on {case['program']!r}: runner {obs['crash']} (stack overflow / timeout)"
        col = Collect()
        self.oracle(col, bool, self.td, obs["_gcals"], obs["_mcals"], obs["_src"], obs)
        if not col.failed: return False, "", "native run satisfies the oracle"
        kind, detail = col.failed[0]
        role = f"{kind}:{detail}"
        if kind.startswith("sm:"):
            # cause signature: does the expansion hoist a DECLARE out of a calibration body (the known stale-index case)?
            decls = []
            try:
                for ins in obs["_src"]:
                    e = ref_expand(self.td, bool, obs["_gcals"], obs["_mcals"], ins, frozenset())
                    decls += [x for x in (e or []) if not in_body(self.td, x)]          # anything add_instruction keeps out of the body
            except Recursive:
                decls = []
            role = f"{kind}:{'hoisted-declaration' if decls else 'no-hoisting'}"
            if kind == "sm:nested-rewritten-length":
                # cause: does the nested call whose range is wrong hoist something itself (the listed defect of remove_target_index),
                # or is the hoisted instruction a sibling of the call?
                role = f"{kind}:{self.nested_length_cause(obs)}"
        return True, role, f"{kind} ({detail}) fails for {case['program']!r}: mapped={str(raw['mapped'])[:500]}"

    def nested_length_cause(self, obs):
        td = self.td
        q = obs["mapped"]
        for e in q["source_map"][1][0]:
            s, t = e[1][0][1][0], e[1][1]
            if t[0] == "Unmodified": continue
            fl = ref_first_level(td, bool, obs["_gcals"], obs["_mcals"], obs["_src"][s]) if 0 <= s < len(obs["_src"]) else None
            if fl is None: continue
            for e2 in t[1][0][1][2][1][0]:
                s2, t2 = e2[1][0][1][0], e2[1][1]
                if t2[0] == "Unmodified" or not (0 <= s2 < len(fl)): continue
                r2 = t2[1][0][1][1]
                if r2[1][1][1][0] - r2[1][0][1][0] != fl[s2][1]:
                    return "child-hoists" if fl[s2][2] else "sibling-hoisted"
        return "unknown"

    def validate(self, runner, sample):
        obs, raw = self.native(runner, sample)
        if obs is None: return f"native failed: {raw}"
        for key in ("plain", "mapped"):
            a, b = obs[key], sample["obs"][key]
            if bool(a.get("diverges")) != bool(b.get("diverges")): return f"{key}: divergence differs: native {a.get('diverges')} mirsym {b.get('diverges')} on {sample['program']!r}"
            if a.get("diverges"): continue
            if ("err" in a) != ("err" in b): return f"{key}: Ok/Err differs on {sample['program']!r}: native {a} mirsym {b}"
            if "body" in a and json_tree(a["body"]) != b["body"]: return f"{key}: bodies differ on {sample['program']!r}: {tree_diff(json_tree(a['body']), b['body'])}"
        return None
