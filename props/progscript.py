"""A small script language over `Program` registers, executed symbolically by mirsym (real MIR) and natively by the
replay runner (`script` op).  Observations come back as trees in both worlds."""
from common import *


def _clone(m, p):
    return deep_clone(p)


def run_script(m, script, ins):
    """script steps as in replay/src/ops.rs, except that instruction lists are lists of indices into `ins`
    (mirsym Instruction values).  Returns the list of observations (trees)."""
    regs, out = {}, []

    def get(k):
        if k not in regs: regs[k] = m.call_path("Program::new", [])
        return regs[k]

    for st in script:
        op = st[0]
        if op == "new":
            regs[st[1]] = m.call_path("Program::new", [])
        elif op == "from":
            regs[st[1]] = m.call_path("Program::from_instructions", [VecObj([deep_clone(ins[i]) for i in st[2]])])
        elif op == "add_instructions":
            cell = [get(st[1])]
            for i in st[2]:
                m.call_path("Program::add_instruction", [Ref(cell, 0), deep_clone(ins[i])])
            regs[st[1]] = cell[0]
        elif op == "add":
            regs[st[1]] = m.call_path("<Program as Add<Program>>::add", [_clone(m, get(st[2])), _clone(m, get(st[3]))])
        elif op == "add_assign":
            cell = [_clone(m, get(st[1]))]
            m.call_path("<Program as AddAssign<Program>>::add_assign", [Ref(cell, 0), _clone(m, get(st[2]))])
            regs[st[1]] = cell[0]
        elif op == "clone":
            regs[st[1]] = _clone(m, get(st[2]))
        elif op == "clone_without_body":
            regs[st[1]] = m.call_path("Program::clone_without_body_instructions", [Ref([get(st[2])], 0)])
        elif op == "rebuild":
            lst = m.call_path("Program::to_instructions", [Ref([get(st[2])], 0)])
            regs[st[1]] = m.call_path("Program::from_instructions", [lst])
        elif op == "expand_calibrations":
            r = m.call_path("Program::expand_calibrations", [Ref([get(st[2])], 0)])
            m.force_tag(r)
            if r.tag == 0:
                regs[st[1]] = r.fields[0]; out.append("Ok")
            else:
                out.append({"err": to_tree(m, r.fields[0])})
        elif op == "expand_defgate_sequences":
            r = m.call_path("Program::expand_defgate_sequences::<Filter>", [_clone(m, get(st[2])), PyFn(lambda mm, name: True, "filter-all")])
            m.force_tag(r)
            if r.tag == 0:
                regs[st[1]] = r.fields[0]; out.append("Ok")
            else:
                out.append({"err": to_tree(m, r.fields[0])})
        elif op == "simplify":
            r = m.call_path("Program::simplify::<DefaultHandler>", [Ref([get(st[2])], 0), Ref([Agg("DefaultHandler", None, [])], 0)])
            m.force_tag(r)
            if r.tag == 0:
                regs[st[1]] = r.fields[0]; out.append("Ok")
            else:
                out.append({"err": to_tree(m, r.fields[0])})
        elif op == "filter_all":
            lst = m.call_path("Program::to_instructions", [Ref([get(st[2])], 0)])
            regs[st[1]] = m.call_path("Program::from_instructions", [lst])
        elif op == "wrap_in_loop":
            mr = Agg("MemoryReference", None, [Str("loop_ctr"), 0])
            tgt = Agg("Target", m.td.enums["Target"].index("Fixed"), [Str("loop_start")])
            regs[st[1]] = m.call_path("Program::wrap_in_loop", [Ref([get(st[2])], 0), mr, tgt, st[3]])
        elif op == "resolve_placeholders":
            cell = [_clone(m, get(st[1]))]
            m.call_path("Program::resolve_placeholders", [Ref(cell, 0)])
            regs[st[1]] = cell[0]
        # ---- observations
        elif op == "to_instructions":
            out.append(to_tree(m, m.call_path("Program::to_instructions", [Ref([get(st[1])], 0)])))
        elif op == "into_instructions":
            out.append(to_tree(m, m.call_path("Program::into_instructions", [_clone(m, get(st[1]))])))
        elif op == "body":
            p = get(st[1])
            out.append(to_tree(m, p.fields[m.td.structs["Program"].index("instructions")]))
        elif op == "used_qubits":
            r = m.call_path("Program::get_used_qubits", [Ref([get(st[1])], 0)])
            t = to_tree(m, r)
            out.append(t[1] if isinstance(t, tuple) and t[0] == "#set" else t)
        elif op == "eq":
            out.append(m.call_path("<Program as PartialEq>::eq", [Ref([get(st[1])], 0), Ref([get(st[2])], 0)]))
        elif op == "len":
            out.append(m.call_path("Program::len", [Ref([get(st[1])], 0)]))
        elif op == "block_schedules":
            td = m.td
            cell = [get(st[1])]
            cfg = m.call_path("<ControlFlowGraph as From<&Program>>::from", [Ref(cell, 0)])
            res = []
            for bi in range(len(cfg.fields[td.structs["ControlFlowGraph"].index("blocks")].items)):
                blocks = cfg.fields[td.structs["ControlFlowGraph"].index("blocks")].items
                r = m.call_path("BasicBlock::as_schedule_seconds::<DefaultHandler>", [Ref(blocks, bi), Ref(cell, 0), Ref([Agg("DefaultHandler", None, [])], 0)])
                m.force_tag(r)
                if r.tag != 0:
                    res.append({"sched_err": True})
                    continue
                t = to_tree(m, r.fields[0])
                f = lambda node, struct, name: node[1][td.structs[struct].index(name)]
                items = []
                for it in f(t, "Schedule", "items"):
                    ts = f(it, "ComputedScheduleItem", "time_span")
                    items.append([f(it, "ComputedScheduleItem", "instruction_index"), f(ts, "TimeSpan", "start_time")[1][0], f(ts, "TimeSpan", "duration")[1][0]])
                res.append({"sched": [sorted(items), f(t, "Schedule", "duration")[1][0]]})
            out.append(res)
        elif op == "get_qubits":
            lst = m.call_path("Program::to_instructions", [Ref([get(st[1])], 0)])
            res = []
            for i in range(len(lst.items)):
                res.append(to_tree(m, m.call_path("Instruction::get_qubits", [Ref(lst.items, i)])))
            out.append(res)
        else:
            raise Unsupported("script op " + op)
    return out


def native_script(runner, script, texts):
    """run the script natively; `texts[i]` is the Quil text of instruction i. Returns (observations as trees, raw)"""
    s2 = []
    for st in script:
        if st[0] in ("from", "add_instructions"):
            s2.append([st[0], st[1], [texts[i] for i in st[2]]])
        else:
            s2.append(list(st))
    r = runner.call({"op": "script", "script": s2})
    if "out" not in r: return None, r
    obs = []
    for o in r["out"]:
        obs.append(_parse_obs(o))
    return obs, r


def _parse_obs(o):
    if isinstance(o, list): return [_parse_obs(x) for x in o]
    if isinstance(o, str):
        if o == "Ok": return "Ok"
        return parse_debug(o)
    if isinstance(o, dict):
        if "err" in o: return {"err": o["err"]}
        if "ok" in o: return {"ok": o["ok"]}
    return o
