"""Group A — symbolic token slices for the token-level parser (C01, C05, C06)."""
import math, re, struct
from common import *

ALPHA = ["ro", "theta", "Theta", "RO", "i", "pi", "PI", "sin", "Cos", "X", "a-b", "q0", "EXTERN"]
STRINGS = ["a", "(x : INTEGER)"]


def kebab(name):
    return re.sub(r"(?<=[a-z])(?=[A-Z])", "-", name).upper()


class Lexemes:
    """text of every payload-free token / keyword, established by lexing candidates natively (verification hook)"""

    def __init__(self, runner, td):
        self.td = td
        self.cmd, self.dt, self.mod = {}, {}, {}
        cands = []
        for v in td.enums["Command"]: cands += [kebab(v), v.upper()]
        for v in td.enums["DataType"]: cands.append(v.upper())
        for v in td.enums["Modifier"]: cands.append(v.upper())
        res = runner.call({"op": "lex", "texts": cands})["results"]
        for text, r in zip(cands, res):
            toks = r.get("ok") or []
            if len(toks) != 1: continue
            mm = re.match(r"^(COMMAND|DATATYPE|MODIFIER)\((.*)\)$", toks[0])
            if not mm: continue
            table, enum = {"COMMAND": (self.cmd, "Command"), "DATATYPE": (self.dt, "DataType"), "MODIFIER": (self.mod, "Modifier")}[mm.group(1)]
            for v in td.enums[enum]:
                if v.upper() == text.replace("-", ""): table[v] = text
        self.op = {"Caret": "^", "Minus": "-", "Plus": "+", "Slash": "/", "Star": "*"}
        self.plain = {"As": "AS", "Bang": "!", "Colon": ":", "Comma": ",", "Indentation": "\t", "LBracket": "[", "LParenthesis": "(", "NonBlocking": "NONBLOCKING",
                      "Matrix": "MATRIX", "Mutable": "mut", "NewLine": "\n", "Offset": "OFFSET", "PauliSum": "PAULI-SUM", "Permutation": "PERMUTATION",
                      "RBracket": "]", "RParenthesis": ")", "Semicolon": ";", "Sequence": "SEQUENCE", "Sharing": "SHARING"}
        missing = [v for v in td.enums["Command"] if v not in self.cmd]
        if missing: raise native.NativeError(f"no lexeme found for commands {missing}")


def f64_text(x):
    if x != x or x in (float("inf"), float("-inf")): return None
    r = repr(abs(x))
    if "e" in r or "." in r: return r if x >= 0 and math.copysign(1.0, x) > 0 else None
    return r + ".0"


def sym_token(m, i, alpha=ALPHA, variants=None):
    """a TokenWithLocation whose token variant and payloads are solver variables"""
    td = m.td
    TOK = td.enums["Token"]
    names = variants or TOK
    tag = m.fresh_int(f"tok{i}", 0, len(TOK))
    if variants: m.solver.add(m.zcached(("tokv", i, tuple(names)), lambda: z3.Or([tag == TOK.index(n) for n in names])))

    def sub_enum(name, var):
        return Agg(name, None, None, symtag=var, alts={v: [] for v in td.enums[name]})

    def factory(variant):
        kind, fnames, types = td.variants[("Token", variant)]
        if kind == "unit": return []
        if variant == "Command": return [sub_enum("Command", m.fresh_int(f"cmd{i}", 0, len(td.enums["Command"])))]
        if variant == "Operator": return [sub_enum("Operator", m.fresh_int(f"op{i}", 0, len(td.enums["Operator"])))]
        if variant == "DataType": return [sub_enum("DataType", m.fresh_int(f"dt{i}", 0, len(td.enums["DataType"])))]
        if variant == "Modifier": return [sub_enum("Modifier", m.fresh_int(f"mod{i}", 0, len(td.enums["Modifier"])))]
        if variant == "Integer": return [m.fresh_bv(f"int{i}", 64)]
        if variant == "Float":
            f = m.fresh_fp(f"flt{i}")
            m.solver.add(m.zcached(("fltfin", i), lambda: z3.And(z3.Not(z3.fpIsNaN(f)), z3.Not(z3.fpIsInf(f)), z3.Not(z3.fpIsNegative(f)))))
            return [f]
        if variant == "String": return [Str(None, m.fresh_int(f"sstr{i}", 0, len(STRINGS)), STRINGS)]
        if variant in ("Comment", "Identifier", "Target", "Variable"):
            return [Str(None, m.fresh_int(f"str{i}", 0, len(alpha)), alpha)]
        raise ValueError(variant)

    tok = Agg("Token", None, None, symtag=tag, alts=LazyAlts(names, factory))
    loc = Agg("LocatedSpan", None, [0, 1, Str(""), UNIT])
    return Agg("TokenWithLocation", None, [tok, loc])


def concrete_tokens(td, model, L, alpha=ALPHA):
    """[(variant, payload)] of the token slice under a model"""
    TOK = td.enums["Token"]
    out = []
    for i in range(L):
        v = TOK[model.get(f"tok{i}", 0)]
        p = None
        if v == "Command": p = td.enums["Command"][model.get(f"cmd{i}", 0)]
        elif v == "Operator": p = td.enums["Operator"][model.get(f"op{i}", 0)]
        elif v == "DataType": p = td.enums["DataType"][model.get(f"dt{i}", 0)]
        elif v == "Modifier": p = td.enums["Modifier"][model.get(f"mod{i}", 0)]
        elif v == "Integer": p = model.get(f"int{i}", 0)
        elif v == "Float":
            b = model.get(f"flt{i}")
            p = struct.unpack("<d", struct.pack("<Q", b[1]))[0] if isinstance(b, (tuple, list)) and b[1] is not None else 0.0
        elif v == "String": p = STRINGS[model.get(f"sstr{i}", 0)]
        elif v in ("Comment", "Identifier", "Target", "Variable"): p = alpha[model.get(f"str{i}", 0)]
        out.append((v, p))
    return out


def render(lex, toks):
    """canonical text of a token sequence (None when a token has no lexeme, e.g. a NaN float)"""
    parts = []
    for v, p in toks:
        if v == "Command": t = lex.cmd[p]
        elif v == "Operator": t = lex.op[p]
        elif v == "DataType": t = lex.dt[p]
        elif v == "Modifier": t = lex.mod[p]
        elif v == "Integer": t = str(p)
        elif v == "Float":
            t = f64_text(p)
            if t is None: return None
        elif v == "String": t = '"' + p.replace("\\", "\\\\").replace('"', '\\"') + '"'
        elif v == "Identifier": t = p
        elif v == "Variable": t = "%" + p
        elif v == "Target": t = "@" + p
        elif v == "Comment": t = "#" + p
        else: t = lex.plain[v]
        parts.append((v, t))
    out = ""
    for k, (v, t) in enumerate(parts):
        if k and parts[k - 1][0] not in ("NewLine", "Indentation") and v not in ("NewLine",): out += " "
        out += t
    return out


def debug_of(toks):
    """the lexer's Debug rendering of each token (what `verif_hooks::lex_debug` prints), for comparison"""
    out = []
    for v, p in toks:
        if v == "Command": out.append(("COMMAND", p))
        elif v in ("Operator", "DataType", "Modifier"): out.append((v.upper(), p))
        elif v == "Integer": out.append(("INTEGER", p))
        elif v == "Float": out.append(("FLOAT", p))
        elif v in ("String", "Identifier", "Variable", "Target", "Comment"): out.append((v.upper(), p))
        else: out.append((v.upper(), None))
    return out


def rust_debug_str(p):
    out = '"'
    for c in p:
        if c == '"': out += '\\"'
        elif c == "\\": out += "\\\\"
        elif c == "\n": out += "\\n"
        elif c == "\t": out += "\\t"
        else: out += c
    return out + '"'


PLAIN_DEBUG = {"As": "AS", "Bang": "BANG", "Colon": "COLON", "Comma": "COMMA", "Indentation": "INDENT", "LBracket": "LBRACKET", "LParenthesis": "LPAREN",
               "NonBlocking": "NONBLOCKING", "Matrix": "MATRIX", "Mutable": "mut", "NewLine": "NEWLINE", "Offset": "OFFSET", "PauliSum": "PAULI-SUM",
               "Permutation": "PERMUTATION", "RBracket": "RBRACKET", "RParenthesis": "RPAREN", "Semicolon": "SEMICOLON", "Sequence": "SEQUENCE", "Sharing": "SHARING"}


def same_tokens(lex, toks, native_debug):
    """does the native lexing of the rendered text give back exactly `toks`? (exact comparison of `Debug for Token`)"""
    if len(native_debug) != len(toks): return False
    for (v, p), d in zip(toks, native_debug):
        if v == "Float":
            mm = re.match(r"^FLOAT\((.*)\)$", d)
            if not mm or float(mm.group(1)) != p: return False
            continue
        if v == "Command": e = f"COMMAND({lex.cmd[p]})"
        elif v == "Operator": e = f"OPERATOR({lex.op[p]})"
        elif v == "DataType": e = f"DATATYPE({lex.dt[p]})"
        elif v == "Modifier": e = f"MODIFIER({lex.mod[p]})"
        elif v == "Integer": e = f"INTEGER({p})"
        elif v == "Identifier": e = f"IDENTIFIER({p})"
        elif v == "Variable": e = f"VARIABLE({p})"
        elif v == "Target": e = f"@{p}"
        elif v == "String": e = f"STRING({rust_debug_str(p)})"
        elif v == "Comment": e = f"COMMENT({rust_debug_str(p)})"
        else: e = PLAIN_DEBUG[v]
        if d != e: return False
    return True
