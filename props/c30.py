"""C30 — type checking is per-instruction and follows the typing rules."""
from common import *
from c26 import fld

R = ["a", "b"]
TYPES = ["BIT", "OCTET", "INTEGER", "REAL"]
H = lambda *ns: {n: ("str", R) for n in ns}
INS = [
    Tpl("add-ref", "ADD {x}[0] {y}[0]", **H("x", "y")), Tpl("add-int", "ADD {x}[0] 1", **H("x")), Tpl("add-real", "ADD {x}[0] 1.5", **H("x")),
    Tpl("and-ref", "AND {x}[0] {y}[0]", **H("x", "y")), Tpl("xor-int", "XOR {x}[0] 1", **H("x")),
    Tpl("neg", "NEG {x}[0]", **H("x")), Tpl("not", "NOT {x}[0]", **H("x")),
    Tpl("eq", "EQ {x}[0] {y}[0] {z}[1]", **H("x", "y", "z")), Tpl("lt-int", "LT {x}[0] {y}[0] 1", **H("x", "y")),
    Tpl("move-ref", "MOVE {x}[0] {y}[0]", **H("x", "y")), Tpl("move-int", "MOVE {x}[0] 1", **H("x")), Tpl("move-real", "MOVE {x}[0] 1.5", **H("x")),
    Tpl("exchange", "EXCHANGE {x}[0] {y}[1]", **H("x", "y")),
    Tpl("load", "LOAD {x}[0] {y} {z}[0]", **H("x", "y", "z")), Tpl("store", "STORE {x} {y}[0] {z}[0]", **H("x", "y", "z")),
    Tpl("sp-ref", 'SET-PHASE 0 "rf" {x}[0]', **H("x")), Tpl("sp-num", 'SET-PHASE 0 "rf" 1.5'), Tpl("sp-pi", 'SET-PHASE 0 "rf" 2*pi'),
    Tpl("sp-var", 'SET-PHASE 0 "rf" %v'), Tpl("sp-imag", 'SET-PHASE 0 "rf" 2.0i'), Tpl("sf-infix", 'SHIFT-FREQUENCY 0 "rf" {x}[0]*{y}[1]', **H("x", "y")),
    Tpl("ss-call", 'SET-SCALE 0 "rf" sin({x}[0])', **H("x")), Tpl("sph-prefix", 'SHIFT-PHASE 0 "rf" -{x}[1]', **H("x")),
    Tpl("sfr-nested", 'SET-FREQUENCY 0 "rf" cos({x}[0]+2*{y}[0])/pi', **H("x", "y")), Tpl("sfr-nested-var", 'SET-FREQUENCY 0 "rf" exp({x}[0])+(%v*2)', **H("x")),
    Tpl("sp-nested-imag", 'SET-PHASE 0 "rf" {x}[0]+sqrt(1.0i)', **H("x")),
    Tpl("gate", "RX({x}[0]) 0", **H("x")), Tpl("pulse", 'PULSE 0 "rf" flat(duration: 1.0, iq: {x}[0])', **H("x")),
]
FRAME_UPDATES = {"SetFrequency": "frequency", "SetPhase": "phase", "SetScale": "scale", "ShiftFrequency": "frequency", "ShiftPhase": "phase"}


CLASSICAL = ("Arithmetic", "BinaryLogic", "UnaryLogic", "Comparison", "Move", "Exchange", "Load", "Store")


def conj_value(v):
    """conjugate every Complex literal inside a mirsym value (in place)"""
    v = deref(v)
    if isinstance(v, Agg):
        if v.ty == "Complex" and v.fields is not None and isinstance(v.fields[1], float): v.fields[1] = -v.fields[1]
        for x in (v.fields or []): conj_value(x)
    elif isinstance(v, VecObj):
        for x in v.items: conj_value(x)
    elif isinstance(v, BoxObj): conj_value(v.fields[0])


def conj_tree(t):
    if isinstance(t, tuple):
        if t[0] == "Complex": return ("Complex", [t[1][0], -t[1][1]])
        return (t[0], [conj_tree(x) for x in t[1]])
    if isinstance(t, list): return [conj_tree(x) for x in t]
    return t


def expr_real(td, e, decl):
    """reference: real-valued at every depth. decl: {region name: type name}"""
    k = e[0]
    if k == "Address":
        name = e[1][0][1][0]
        return decl.get(name) == "Real"
    if k == "Number":
        c = e[1][0]
        return abs(c[1][1]) <= 2.220446049250313e-16
    if k == "PiConstant": return True
    if k == "Variable": return False
    if k in ("FunctionCall", "Prefix"):
        inner = fld(td, e[1][0], k + "Expression", "expression")
        return expr_real(td, inner, decl)
    if k == "Infix":
        return expr_real(td, fld(td, e[1][0], "InfixExpression", "left"), decl) and expr_real(td, fld(td, e[1][0], "InfixExpression", "right"), decl)
    return False


class C30(Check):
    id = "C30"
    title = "Type checking is per-instruction and follows the typing rules"
    functions = ["program::type_check::{type_check,should_be_real,type_check_arithmetic,type_check_comparison,type_check_binary_logic,type_check_unary_logic,type_check_move,"
                 "type_check_exchange,type_check_load,type_check_store}"]
    assumptions = ["two regions, each undeclared or declared BIT / OCTET / INTEGER / REAL (driver choice), and <= N body instructions from 28 templates with solver-chosen region names",
                   "renaming is realised by permuting the name alphabet under the same solver variables; reordering / duplication by rebuilding the program"]
    outside = ["more than N instructions", "expressions deeper than in the templates"]
    N = {"quick": 2, "thorough": 3}
    sample_rate = 16
    max_paths = {"quick": 800000, "thorough": 8000000}

    def bounds(self, tier):
        return {"instructions": f"<= {self.N[tier]}", "templates": [t.name for t in INS], "region_types": ["undeclared"] + TYPES}

    def setup(self, world, runner, tier):
        self.td = world.td
        parse_templates(runner, world.td, INS)
        self.decl = {}
        texts = [f"DECLARE {r} {t}[2]" for r in R for t in TYPES]
        res = runner.call({"op": "parse_instructions", "texts": texts})["results"]
        for x, r in zip(texts, res): self.decl[x] = parse_debug(r["ok"][0])

    def program(self, m, decls, instrs):
        prog = m.call_path("Program::new", [])
        cell = [prog]
        for d in decls:
            m.call_path("Program::add_instruction", [Ref(cell, 0), from_tree(m.td, self.decl[d], "Instruction")])
        for ins in instrs:
            m.call_path("Program::add_instruction", [Ref(cell, 0), deep_clone(ins)])
        return cell

    def verdict(self, m, cell):
        r = m.call_path("type_check", [Ref(cell, 0)])
        m.force_tag(r)
        return r.tag == 0

    def path(self, m):
        td = m.td
        # quick: region a over {undeclared, BIT, INTEGER, REAL}, region b over {INTEGER, REAL}; thorough: all 5 x 5
        opts = [["none", "BIT", "INTEGER", "REAL"], ["INTEGER", "REAL"]] if m.tier == "quick" else [["none"] + TYPES, ["none"] + TYPES]
        ty = [m.choose([(t, None) for t in o]) for o in opts]
        n = m.choose([(k, None) for k in range(1, self.N[m.tier] + 1)])
        names = [m.choose([(t.name, None) for t in INS]) for _ in range(n)]
        m.ctx = {"types": ty, "names": names}
        by = {t.name: t for t in INS}
        decls = [f"DECLARE {r} {t}[2]" for r, t in zip(R, ty) if t != "none"]
        inst = [instantiate(m, by[nm], f"i{i}_") for i, nm in enumerate(names)]
        body = [a for a, _ in inst]
        # number literals with a negative imaginary part cannot be written in Quil text: built by conjugating the parsed literal
        conj = any("imag" in nm for nm in names) and m.choose([(False, None), (True, None)])
        m.ctx["conj"] = bool(conj)
        if conj:
            for b in body: conj_value(b)
        whole = self.verdict(m, self.program(m, decls, body))
        singles = [self.verdict(m, self.program(m, decls, [b])) for b in body]
        m.require("per-instruction", ",".join(names), whole == all(singles))
        # "against the program's declarations": a classical instruction that names an undeclared region does not type-check
        undeclared = [i for i, t in enumerate(ty) if t == "none"]
        for (a, hv), nm, ok in zip(inst, names, singles):
            if to_tree(m, a)[0] not in CLASSICAL or not undeclared: continue
            cond = or_any(v.sym == i for v in hv.values() if isinstance(v, Str) and v.s is None for i in undeclared)
            if m.branch_bool(cond): m.require("undeclared-rejected", nm, not ok)
        # SET-* / SHIFT-*: real at every depth
        declmap = {r: t.capitalize() for r, t in zip(R, ty) if t != "none"}
        for b, nm, ok in zip(body, names, singles):
            t = to_tree(m, b)
            if t[0] in FRAME_UPDATES:
                e = fld(td, t[1][0], t[0], FRAME_UPDATES[t[0]])
                e = self.concrete(m, e)
                m.require("frame-update-real", nm, ok == expr_real(td, e, declmap))
        # renaming a <-> b consistently, reordering, duplication
        swapped_decls = [f"DECLARE {R[1 - i]} {t}[2]" for i, t in enumerate(ty) if t != "none"]
        sw_tpl = {nm: Tpl(by[nm].name, by[nm].text, **{h: ("str", list(reversed(R))) for h in by[nm].order}) for nm in set(names)}
        for nm in sw_tpl: sw_tpl[nm].tree = by[nm].tree
        sbody = [instantiate(m, sw_tpl[nm], f"i{i}_")[0] for i, nm in enumerate(names)]
        if conj:
            for b in sbody: conj_value(b)
        m.require("renaming-invariant", ",".join(names), self.verdict(m, self.program(m, swapped_decls, sbody)) == whole)
        if n > 1:
            m.require("reorder-invariant", ",".join(names), self.verdict(m, self.program(m, decls, list(reversed(body)))) == whole)
        m.require("duplication-invariant", ",".join(names), self.verdict(m, self.program(m, decls, body + [body[0]])) == whole)
        if m.want_sample() and m._check() == z3.sat:
            mdl = m.model_dict(m.solver.model()); mdl["_ctx"] = m.ctx
            c = self.case("sample", "", mdl)
            c["whole"] = whole
            return c
        return None

    def concrete(self, m, t):
        if isinstance(t, tuple): return (t[0], [self.concrete(m, x) for x in t[1]])
        if isinstance(t, list): return [self.concrete(m, x) for x in t]
        if isinstance(t, Str): return m.str_concrete(t)
        return t

    def case(self, kind, detail, model):
        ctx = model["_ctx"]
        by = {t.name: t for t in INS}
        decls = [f"DECLARE {r} {t}[2]" for r, t in zip(R, ctx["types"]) if t != "none"]
        body = [by[nm].render(hole_values(by[nm], f"i{i}_", model)) for i, nm in enumerate(ctx["names"])]
        sw = {"a": "b", "b": "a"}
        sdecls = [f"DECLARE {sw[r]} {t}[2]" for r, t in zip(R, ctx["types"]) if t != "none"]
        sbody = [by[nm].render({h: (sw[v] if isinstance(v, str) and v in sw else v) for h, v in hole_values(by[nm], f"i{i}_", model).items()}) for i, nm in enumerate(ctx["names"])]
        refs = [sorted({v for v in hole_values(by[nm], f"i{i}_", model).values() if isinstance(v, str) and v in R}) for i, nm in enumerate(ctx["names"])]
        return {"decls": decls, "body": body, "sdecls": sdecls, "sbody": sbody, "types": ctx["types"], "conj": bool(ctx.get("conj")), "refs": refs, "kind": kind, "detail": detail}

    def native(self, runner, case):
        d, b = case["decls"], case["body"]
        progs = ["\n".join(d + b)] + ["\n".join(d + [x]) for x in b] + ["\n".join(case["sdecls"] + case["sbody"]), "\n".join(d + list(reversed(b))), "\n".join(d + b + [b[0]])]
        r = runner.call({"op": "type_check", "programs": progs, "conj": bool(case.get("conj"))})
        if "results" not in r or any(isinstance(x, dict) and "input_error" in x for x in r["results"]): return None, r
        v = [x == "Ok" for x in r["results"]]
        n = len(b)
        pr = runner.call({"op": "parse_instructions", "texts": b})["results"]
        trees = [parse_debug(x["ok"][0]) for x in pr]
        if case.get("conj"): trees = [conj_tree(t) for t in trees]
        return {"whole": v[0], "singles": v[1:1 + n], "renamed": v[1 + n], "reordered": v[2 + n], "duplicated": v[3 + n], "trees": trees}, r

    def confirm(self, runner, case):
        obs, raw = self.native(runner, case)
        if obs is None:
            if "panic" in raw or "crash" in raw: return True, "panic", f"type_check panics: {raw}"
            return None, "input", str(raw)[:300]
        failed = []
        if obs["whole"] != all(obs["singles"]): failed.append("per-instruction")
        declmap = {r: t.capitalize() for r, t in zip(R, case["types"]) if t != "none"}
        for t, ok in zip(obs["trees"], obs["singles"]):
            if t[0] in FRAME_UPDATES:
                e = fld(self.td, t[1][0], t[0], FRAME_UPDATES[t[0]])
                if ok != expr_real(self.td, e, declmap): failed.append("frame-update-real:" + t[0])
        declared = set(declmap)
        for t, ok, refs in zip(obs["trees"], obs["singles"], case.get("refs") or [[]] * len(obs["trees"])):
            if t[0] in CLASSICAL and any(r not in declared for r in refs) and ok: failed.append("undeclared-rejected:" + t[0])
        if obs["renamed"] != obs["whole"]: failed.append("renaming-invariant")
        if obs["reordered"] != obs["whole"]: failed.append("reorder-invariant")
        if obs["duplicated"] != obs["whole"]: failed.append("duplication-invariant")
        if not failed: return False, "", "native run satisfies the oracle"
        return True, failed[0], f"{failed[0]} fails for declarations {case['decls']} body {case['body']}: verdicts {raw['results']}"

    def validate(self, runner, sample):
        obs, raw = self.native(runner, sample)
        if obs is None: return f"native failed: {raw}"
        if obs["whole"] != sample["whole"]: return f"verdict differs for {sample['decls']} {sample['body']}: native {obs['whole']} mirsym {sample['whole']}"
        return None

    def canary(self, runner, tier):
        case = {"decls": ["DECLARE a INTEGER[2]"], "body": ['SET-PHASE 0 "rf" a[0]'], "sdecls": ["DECLARE b INTEGER[2]"], "sbody": ['SET-PHASE 0 "rf" b[0]'], "types": ["REAL", "none"]}
        ok, role, text = self.confirm(runner, case)       # the oracle is told `a` is REAL although it is declared INTEGER
        return True if ok and role.startswith("frame-update-real") else "oracle accepted a non-real frame update"


CHECK = C30()
