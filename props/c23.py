"""C23 — memory accesses are sequentially consistent in the dependency graph.

Two encodings: (a) one inductive step of `DependencyQueue::<MemoryAccessType>::record_access_and_get_dependencies` from an
ARBITRARY queue state (unbounded in program size); (b) whole blocks through sched.py."""
from sched import *


def sym_node(m, name):
    """a ScheduledGraphNode::InstructionIndex(i) with solver-chosen i"""
    i = m.fresh_bv(name, 64)
    m.solver.add(z3.ULT(i, 8))
    return Agg("ScheduledGraphNode", m.td.enums["ScheduledGraphNode"].index("InstructionIndex"), [i]), i


def sym_access(m, name, only=None):
    en = m.td.enums["MemoryAccessType"]
    v = m.fresh_int(name, 0, len(en))
    if only: m.solver.add(z3.Or([v == en.index(x) for x in only]))
    return Agg("MemoryAccessType", None, None, symtag=v, alts={x: [] for x in en}), v


class C23(SchedCheck):
    id = "C23"
    prop = "C23"
    title = "Memory accesses are sequentially consistent in the dependency graph"
    functions = SchedCheck.functions + ["DependencyQueue::<MemoryAccessType>::record_access_and_get_dependencies (inductive step from an arbitrary state)"]
    assumptions = SchedCheck.assumptions + ["kernel: queue state = optional pending write (Write or Capture by any node) and a set of <= 2 pending reads by distinct nodes, "
                                            "all node indices and access types solver variables; representation invariant: none"]

    def path(self, m):
        mode = m.choose([("kernel", None), ("block", None)])
        if mode == "block": return super().path(m)
        td = m.td
        en = td.enums["MemoryAccessType"]
        R, W, C = en.index("Read"), en.index("Write"), en.index("Capture")
        has_write = m.choose([(False, None), (True, None)])
        nreads = m.choose([(k, None) for k in range(0, 3)])
        m.ctx = {"mode": "kernel", "has_write": has_write, "nreads": nreads}
        wnode = wacc = None
        write = NONE()
        if has_write:
            wnode, wi = sym_node(m, "w_node")
            wacc, wv = sym_access(m, "w_acc", ["Write", "Capture"])
            mad = td.structs["MemoryAccessDependency"]
            dep = Agg("MemoryAccessDependency", None, [None, None])
            dep.fields[mad.index("access_type")] = wacc
            dep.fields[mad.index("node_id")] = wnode
            write = SOME(dep)
        reads = SetObj("hash")
        rnodes = []
        for k in range(nreads):
            rn, ri = sym_node(m, f"r{k}_node")
            for (_, rj) in rnodes: m.solver.add(ri != rj)
            rnodes.append((rn, ri))
            reads.items.append([rn, UNIT])
        dq = td.structs["DependencyQueue"]
        q = Agg("DependencyQueue", None, [None, None])
        q.fields[dq.index("write")] = write
        q.fields[dq.index("reads")] = reads
        anode, ai = sym_node(m, "a_node")
        aacc, av = sym_access(m, "a_acc")
        cell = [q]
        res = m.call_path("DependencyQueue::<MemoryAccessType>::record_access_and_get_dependencies", [Ref(cell, 0), anode, aacc])
        deps = [to_tree(m, x[0]) for x in res.items]
        is_write = m.branch_bool(z3.Or(av == W, av == C))
        mad = td.structs["MemoryAccessDependency"]

        def dep_tree(acc_tree, node_tree):
            f = [None, None]
            f[mad.index("access_type")] = acc_tree; f[mad.index("node_id")] = node_tree
            return ("MemoryAccessDependency", f)
        expected = []
        if has_write: expected.append(dep_tree(to_tree(m, wacc), to_tree(m, wnode)))
        if is_write: expected += [dep_tree(("Read", []), to_tree(m, rn)) for rn, _ in rnodes]
        m.require("kernel:dependencies", f"write={has_write},reads={nreads},access-is-write={is_write}",
                  and_all([and_all(or_any(tree_eq(d, e, m) for e in expected) for d in deps), and_all(or_any(tree_eq(d, e, m) for d in deps) for e in expected)]))
        post = cell[0]
        pw, pr = post.fields[dq.index("write")], post.fields[dq.index("reads")]
        m.force_tag(pw)
        if is_write:
            ok = pw.tag == 1 and and_all([tree_eq(to_tree(m, pw.fields[0]), dep_tree(to_tree(m, aacc), to_tree(m, anode)), m)])
            m.require("kernel:write-becomes-pending", "", ok)
            m.require("kernel:reads-drained", "", len(pr.items) == 0)
        else:
            m.require("kernel:write-kept", "", tree_eq(to_tree(m, pw), to_tree(m, write), m))
            want = [to_tree(m, rn) for rn, _ in rnodes] + [to_tree(m, anode)]
            got = [to_tree(m, x[0]) for x in pr.items]
            m.require("kernel:read-recorded", "", and_all([and_all(or_any(tree_eq(g, w_, m) for w_ in want) for g in got), and_all(or_any(tree_eq(g, w_, m) for g in got) for w_ in want)]))
        return None

    def case(self, kind, detail, model):
        if model["_ctx"].get("mode") == "kernel":
            return {"kernel": True, "kind": kind, "detail": detail, "model": {k: v for k, v in model.items() if k != "_ctx"}, "ctx": model["_ctx"]}
        return super().case(kind, detail, model)

    def confirm(self, runner, case):
        if case.get("kernel"):
            # replay through the public API: a block whose accesses to ONE region realise the queue state, then the action
            ctx, md = case["ctx"], case["model"]
            en = self.td.enums["MemoryAccessType"]
            text = {"Read": "MOVE y[0] x[0]", "Write": "MOVE x[0] 1", "Capture": "MEASURE 0 x[0]"}
            body = []
            if ctx["has_write"]: body.append(text[en[md.get("w_acc", 1)]])
            body += [text["Read"]] * ctx["nreads"]
            body.append(text[en[md.get("a_acc", 0)]])
            c2 = {"program": FRAMES + "\n" + "\n".join(body), "body": body, "names": ["k"] * len(body), "term": "none", "kind": case["kind"], "detail": case["detail"]}
            ok, role, textr = super().confirm(runner, c2)
            return ok, ("kernel:" + role if ok else role), textr
        return super().confirm(runner, case)

    def canary(self, runner, tier):
        case = {"program": FRAMES + "\nMOVE x[0] 1\nMOVE y[0] x[0]", "body": ["MOVE x[0] 1", "MOVE y[0] x[0]"], "names": ["move-lit", "move-ref"], "term": "none"}
        obs, raw = self.native(runner, case)
        if obs is None: return f"canary input failed natively: {raw}"
        col = Collect()
        info, edges = obs[0], obs[1][0]
        bad = [e for e in edges if not (e[0][0] == "InstructionIndex" and e[1][0] == "InstructionIndex")]
        oracle("C23", col, info, bad)
        return True if col.failed else "oracle accepted a graph without the write->read edge"


CHECK = C23()
