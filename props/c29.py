"""C29 — gate depth equals the longest chain of qualifying gates."""
from common import *
from c26 import fld

QS = [0, 1, 2, 3]
TPLS = [
    Tpl("g1", "X {q}", q=("int", QS)),
    Tpl("g2", "CNOT {q} {r}", q=("int", QS), r=("int", QS)),
    Tpl("g3", "CCNOT {q} {r} {s}", q=("int", QS), r=("int", QS), s=("int", QS)),
    Tpl("measure", "MEASURE {q} ro[0]", q=("int", QS)),
    Tpl("move", "MOVE ro[0] 1"),
    Tpl("nop", "NOP"),
]
QUICK = ("g1", "g2", "measure", "move")


def qubits_of(td, ins):
    k, p = ins[0], (ins[1][0] if ins[1] else None)
    if k == "Gate": return list(fld(td, p, "Gate", "qubits"))
    if k == "Measurement": return [fld(td, p, "Measurement", "qubit")]
    return []


def reference_depth(td, decide, body, qualifies, m=None):
    """longest chain (dynamic programme over the per-qubit successor relation); qualifies(i) says whether instruction i counts"""
    n = len(body)
    qs = [qubits_of(td, x) for x in body]

    def share(i, j):
        """a qubit on which j directly follows i"""
        for q in qs[i]:
            if not any(decide(tree_eq(q, x, m)) for x in qs[j]): continue
            if not any(any(decide(tree_eq(q, x, m)) for x in qs[k]) for k in range(i + 1, j)): return True
        return False
    depth = [0] * n
    for j in range(n):
        best = 0
        for i in range(j):
            if share(i, j): best = max(best, depth[i])
        depth[j] = best + (1 if qualifies(j) else 0)
    return max(depth) if depth else 0


class C29(Check):
    id = "C29"
    title = "Gate depth equals the longest chain of qualifying gates"
    functions = ["QubitGraph::new::<_, DefaultHandler>", "QubitGraph::path_fold", "QubitGraph::gate_depth", "<DefaultHandler as InstructionHandler>::role", "Instruction::get_qubits"]
    assumptions = ["blocks of <= N instructions: one-, two- and three-qubit gates, MEASURE, MOVE, NOP with qubits solver-chosen from {0,1,2,3}, the qubits of one gate pairwise distinct",
                   "the threshold is any usize (a 64-bit solver variable)", "petgraph Graph modelled as node / edge lists (externals, neighbors_directed in petgraph's order)"]
    outside = ["gates that repeat a qubit (a self-edge: path_fold does not terminate; outside the statement's chains)", "blocks longer than N", "instructions QubitGraph rejects (pragma, RF, jumps)"]
    N = {"quick": 3, "thorough": 4}
    sample_rate = 16
    max_paths = {"quick": 600000, "thorough": 8000000}

    def tpls(self, tier): return [t for t in TPLS if tier != "quick" or t.name in QUICK]

    def bounds(self, tier):
        return {"instructions": f"<= {self.N[tier]}", "templates": [t.name for t in self.tpls(tier)], "qubits": QS, "threshold": "all usize"}

    def setup(self, world, runner, tier):
        self.td = world.td
        parse_templates(runner, world.td, TPLS)

    def path(self, m):
        td = m.td
        n = m.choose([(j, None) for j in range(0, self.N[m.tier] + 1)])
        names = [m.choose([(t.name, None) for t in self.tpls(m.tier)]) for _ in range(n)]
        m.ctx = {"shapes": names}
        by = {t.name: t for t in TPLS}
        ins = []
        for j, s in enumerate(names):
            a, hv = instantiate(m, by[s], f"i{j}_")
            vals = [hv[h] for h in by[s].order]
            for x in range(len(vals)):
                for y in range(x + 1, len(vals)): m.assume(vals[x] != vals[y])
            ins.append(a)
        body = [to_tree(m, a) for a in ins]
        from lib_iter import ListIt
        handler = Agg("DefaultHandler", None, [])
        r = m.call_path("QubitGraph::new::<Iter, DefaultHandler>", [ListIt([Ref(ins, i) for i in range(n)]), Ref([handler], 0)])
        m.force_tag(r)
        if not m.require("graph-built", "", r.tag == 0): return None
        k = m.fresh_bv("k", 64)
        d = m.call_path("QubitGraph::gate_depth", [Ref([r.fields[0]], 0), k])
        quals = {}

        def qualifies(i):
            if i not in quals:
                quals[i] = body[i][0] == "Gate" and m.branch_bool(z3.UGE(z3.BitVecVal(len(qubits_of(td, body[i])), 64), k))
            return quals[i]
        want = reference_depth(td, m.branch_bool, body, qualifies, m)
        m.require("gate-depth", f"n={n}", d == want)
        if m.want_sample() and m._check() == z3.sat:
            zm = m.solver.model()
            mdl = m.model_dict(zm); mdl["_ctx"] = m.ctx
            c = self.case("sample", "", mdl)
            c["depth"] = eval_tree(d, zm, None)
            return c
        return None

    def case(self, kind, detail, model):
        by = {t.name: t for t in TPLS}
        lines = [by[s].render(hole_values(by[s], f"i{j}_", model)) for j, s in enumerate(model["_ctx"]["shapes"])]
        return {"program": "\n".join(["DECLARE ro BIT[1]"] + lines), "k": model.get("k", 0), "kind": kind, "detail": detail}

    def native(self, runner, case):
        r = runner.call({"op": "gate_depth", "program": case["program"], "thresholds": [min(case["k"], 2**63)]}, timeout=15)
        if "depths" not in r: return None, r
        return (r["depths"][0], [parse_debug(t) for t in r["body"]]), r

    def confirm(self, runner, case):
        if case["k"] >= 2**63: case = dict(case, k=2**63)          # serde_json u64; any k above the largest gate arity behaves alike
        obs, raw = self.native(runner, case)
        if obs is None:
            if "panic" in raw or "crash" in raw: return True, "panic", f"gate_depth panics / does not return on {case['program']!r}: {raw}"
            return None, "input", str(raw)[:300]
        d, body = obs
        k = case["k"]
        want = reference_depth(self.td, bool, body, lambda i: body[i][0] == "Gate" and len(qubits_of(self.td, body[i])) >= k)
        if d == want: return False, "", "native run satisfies the oracle"
        return True, "gate-depth", f"gate_depth({k}) = {d}, longest chain = {want} for {case['program']!r}"

    def validate(self, runner, sample):
        obs, raw = self.native(runner, sample)
        if obs is None: return f"native failed: {raw}"
        if obs[0] != sample["depth"]: return f"depth differs on {sample['program']!r} k={sample['k']}: native {obs[0]} mirsym {sample['depth']}"
        return None

    def canary(self, runner, tier):
        obs, raw = self.native(runner, {"program": "X 0\nCNOT 0 1\nX 1\nX 2", "k": 1})
        if obs is None: return f"canary input failed: {raw}"
        body = obs[1]
        want = reference_depth(self.td, bool, body, lambda i: True)
        return True if (obs[0] == 3 and want == 3 and reference_depth(self.td, bool, body, lambda i: len(qubits_of(self.td, body[i])) >= 2) == 1) else f"reference disagrees on the canary: {obs[0]} {want}"


CHECK = C29()
