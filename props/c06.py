"""C06 — names are preserved exactly and consistently by parsing (token level)."""
from tokens import *
from c05 import parse_token_debug, concrete_token

SENT = "hole0x"          # all lower case: locating the name must not depend on the case-preservation under test
RESERVED = {"pi", "i", "sin", "cos", "cis", "exp", "sqrt"}
NAMES = ["ro", "theta", "Theta", "RO", "Ro", "i", "I", "pi", "PI", "Pi", "sin", "Cos", "SQRT", "X", "a-b", "q0", "cIs", "Exp"]
# (name, text, in_expression)
POSITIONS = [
    ("declare", "DECLARE {n} BIT[2]", False),
    ("memref", "MOVE {n}[0] 1", False),
    ("memref-src", "MOVE ro[0] {n}[1]", False),
    ("label", "LABEL @{n}", False),
    ("jump", "JUMP @{n}", False),
    ("jump-when", "JUMP-WHEN @{n} ro[0]", False),
    ("gate-name", "{n} 0", False),
    ("gate-variable", "RX(%{n}) 0", False),
    ("pragma-name", "PRAGMA {n}", False),
    ("pragma-arg", "PRAGMA foo {n}", False),
    ("defcircuit-qubit", "DEFCIRCUIT FOO {n}:\n\tX {n}", False),
    ("defgate-name", "DEFGATE {n} AS PERMUTATION:\n\t0, 1", False),
    ("defwaveform-name", "DEFWAVEFORM {n}:\n\t1.0", False),
    ("waveform-invocation", 'PULSE 0 "rf" {n}(duration: 1.0)', False),
    ("capture-memref", 'CAPTURE 0 "rf" flat(duration: 1.0) {n}[0]', False),
    ("load", "LOAD ro[0] {n} ro[1]", False),
    ("store", "STORE {n} ro[0] 1", False),
    ("measure", "MEASURE 0 {n}[0]", False),
    ("call", "CALL {n} ro[0]", False),
    ("expr-bare", "RX({n}) 0", True),
    ("expr-indexed", "RX({n}[1]) 0", False),
    ("expr-infix", "RX(2*{n}) 0", True),
    ("expr-setphase", 'SET-PHASE 0 "rf" {n}', True),
    ("declare-then-use", "DECLARE {n} REAL[1]\nRX({n}) 0", True),
    ("sharing", "DECLARE a BIT[1] SHARING {n}", False),
    ("defcal-param", "DEFCAL RX(%{n}) 0:\n\tNOP", False),
    # a name directly after a numeric literal: only the lower-case imaginary unit `i` belongs to the number
    ("call-arg-after-integer", "CALL foo 2 {n}", "imag"),
    ("call-arg-after-real", "CALL foo 2.5 {n} ro[0]", "imag"),
    ("rawcapture-memref-after-number", 'RAW-CAPTURE 0 "rf" 2 {n}', "imag"),
]


def find_paths(t, needle, path, out):
    if isinstance(t, tuple):
        for i, x in enumerate(t[1]): find_paths(x, needle, path + [i], out)
    elif isinstance(t, list):
        for i, x in enumerate(t): find_paths(x, needle, path + [i], out)
    elif t == needle: out.append(path)
    return out


def at_path(t, path):
    for i in path:
        if isinstance(t, tuple): t = t[1]
        if not isinstance(t, list) or i >= len(t): return None
        t = t[i]
    return t


class C06(Check):
    id = "C06"
    title = "Names are preserved exactly and consistently by parsing"
    functions = ["parser::instruction::parse_instructions", "parser::command::*", "parser::common::*", "parser::expression::{parse_expression,parse_expression_identifier}",
                 "parser::gate::parse_gate"]
    assumptions = ["identifier token payloads are solver-chosen from a 18-name mixed-case alphabet (including the reserved words in several casings)",
                   "token slices come from natively lexing each name-position template (verification hook); the identifier token is then made symbolic",
                   "the expected location of the name in the AST is the location of a sentinel name in the natively parsed template"]
    outside = ["characters -> identifier token (lex_identifier_raw): lexer", "name positions not in the template list"]
    sample_rate = 4

    def bounds(self, tier):
        return {"positions": [p[0] for p in POSITIONS], "names": NAMES}

    def code_derived_names(self):
        """case variants of the identifier-like string literals the parser (and the crate's `const NAME: &str`) compares
        names against: a name that differs from such a word only by letter case must still be preserved"""
        import glob
        words = set()
        root = os.path.join(native.REPO, "quil-rs", "src")
        for f in glob.glob(os.path.join(root, "parser", "*.rs")):
            src = re.sub(r"//[^\n]*", "", open(f).read())
            src = src.split("#[cfg(test)]")[0]
            words.update(re.findall(r'"([A-Za-z][A-Za-z0-9_-]{1,15})"', src))
        for f in glob.glob(os.path.join(root, "**", "*.rs"), recursive=True):
            words.update(re.findall(r'const [A-Z_]+: &(?:\'static )?str = "([A-Za-z][A-Za-z0-9_-]{1,15})"', open(f).read()))
        out = []
        for w in sorted(words):
            for v in (w.capitalize(), w.lower(), w.upper()):
                if v != w and v not in out and v not in NAMES and v.lower() not in RESERVED and not v[0].isdigit(): out.append(v); break
        return out[:14]

    def setup(self, world, runner, tier):
        global NAMES
        extra = self.code_derived_names()
        # keep only names that lex as one identifier token
        res = runner.call({"op": "lex", "texts": extra})["results"]
        extra = [n for n, r in zip(extra, res) if r.get("ok") == [f"IDENTIFIER({n})"]]
        for n in extra:
            if n not in NAMES: NAMES.append(n)
        self.td = world.td
        self.lex = Lexemes(runner, world.td)
        texts = [p[1].format(n=SENT) for p in POSITIONS]
        res = runner.call({"op": "lex", "texts": texts})["results"]
        par = runner.call({"op": "parse_instructions", "texts": texts})["results"]
        self.toks, self.paths = {}, {}
        for (name, text, inexpr), r, pr in zip(POSITIONS, res, par):
            if "ok" not in r or "ok" not in pr: raise native.NativeError(f"template {name} does not lex/parse: {r} {pr}")
            self.toks[name] = [parse_token_debug(d) for d in r["ok"]]
            tree = [parse_debug(x) for x in pr["ok"]]
            ps = find_paths(tree, SENT, [], [])
            if not ps: raise native.NativeError(f"sentinel name not found in parsed template {name}: {pr}")
            self.paths[name] = ps

    def path(self, m):
        pi = m.choose([(i, None) for i in range(len(POSITIONS))])
        name, text, inexpr = POSITIONS[pi]
        m.ctx = {"pos": pi}
        nm = Str(None, m.fresh_int("name", 0, len(NAMES)), NAMES)
        toks = []
        for v, p in self.toks[name]:
            t = concrete_token(m.td, self.lex, v, p)
            if v in ("Identifier", "Variable", "Target") and p == SENT: t.fields[0].fields[0] = nm
            toks.append(t)
        vec = VecObj(toks)
        r = m.call_path("parse_instructions", [Slice(vec, 0, len(toks))])
        m.force_tag(r)
        # which concrete name is it on this path? (needed to know whether it is a reserved word in expressions)
        if r.tag != 0:
            # a name that is valid in one position must not make the parse fail only because of its letter case
            m.world.count("rejected_paths")
            m.require("parse-ok-or-rejected", name, True)
            return self.sample(m, name, "Err")
        tree = to_tree(m, r.fields[0].fields[1])
        reserved_possible = inexpr
        if inexpr:
            idx = m.choose([(k, nm.sym == k) for k in range(len(NAMES))])
            if (NAMES[idx] == "i") if inexpr == "imag" else (NAMES[idx].lower() in RESERVED):
                m.world.count("reserved_word_paths")
                m.require("reserved-word", name, True)
                return self.sample(m, name, "reserved")
        for p in self.paths[name]:
            got = at_path(tree, p)
            ok = isinstance(got, (Str, str))
            if m.require("name-present", f"{name}", ok):
                m.require("name-preserved", f"{name}", tree_eq(got, nm, m))
        return self.sample(m, name, "Ok")

    def sample(self, m, name, outcome):
        if m._check() != z3.sat: return None
        mdl = m.model_dict(m.solver.model())
        n = NAMES[mdl.get("name", 0)]
        return {"position": name, "name": n, "outcome": outcome, "text": POSITIONS[m.ctx["pos"]][1].format(n=n)}

    def case(self, kind, detail, model):
        pi = model["_ctx"]["pos"]
        n = NAMES[model.get("name", 0)]
        return {"pos": pi, "name": n, "text": POSITIONS[pi][1].format(n=n), "kind": kind}

    def confirm(self, runner, case):
        name, text, inexpr = POSITIONS[case["pos"]]
        r = runner.call({"op": "parse_any", "kind": "program", "text": case["text"]})
        if "panic" in r or "crash" in r: return True, f"panic:{name}", f"Program::from_str({case['text']!r}) panics: {r}"
        if "ok" not in r: return False, "", f"rejected natively: {case['text']!r}: {r}"
        if inexpr == "imag" and case["name"] == "i": return False, "", "imaginary unit"
        if inexpr is True and case["name"].lower() in RESERVED: return False, "", "reserved word"
        tree = [parse_debug(x) for x in r["ok"]]
        # the natively built program lists declarations first: locate by value instead of by path when the shapes differ
        for p in self.paths[name]:
            got = at_path(tree, p)
            if got != case["name"]:
                return True, f"name-changed:{name}", f"{case['text']!r}: name {case['name']!r} became {got!r} in {r['ok']}"
        return False, "", "name preserved natively"

    def validate(self, runner, sample):
        """the interpreted parser and the native one must agree on accept / reject for the sampled name"""
        r = runner.call({"op": "parse_any", "kind": "program", "text": sample["text"]})
        nat_ok = "ok" in r
        if nat_ok != (sample["outcome"] != "Err"):
            return f"accept/reject differs on {sample['text']!r}: native {'Ok' if nat_ok else r} mirsym {sample['outcome']}"
        return None

    def canary(self, runner, tier):
        ok, role, text = self.confirm(runner, {"pos": 0, "name": "Theta", "text": "DECLARE theta BIT[2]", "kind": "name-preserved"})
        return True if ok else "native oracle accepted a changed name"


CHECK = C06()
