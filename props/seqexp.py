"""Gate-sequence expansion (C20, C21): shared templates, reference expander, driver."""
from common import *
from c26 import fld
from calib import subst

NAMES = ["A", "B", "C"]
Q = [0, 1]
MATRIX = "\n\t1.0, 0.0\n\t0.0, 1.0"
DEFS = [
    Tpl("s1|x", "DEFGATE {n} a AS SEQUENCE:\n\t{h} a", n=("str", NAMES), h=("str", NAMES)),
    Tpl("s1|xx", "DEFGATE {n} a AS SEQUENCE:\n\t{h} a\n\t{k} a", n=("str", NAMES), h=("str", NAMES), k=("str", NAMES)),
    Tpl("s1p|xp", "DEFGATE {n}(%t) a AS SEQUENCE:\n\t{h}(%t) a", n=("str", NAMES), h=("str", NAMES)),
    Tpl("s1p|x-rz", "DEFGATE {n}(%t) a AS SEQUENCE:\n\t{h} a\n\tRZ(%t) a", n=("str", NAMES), h=("str", NAMES)),
    Tpl("s1p|xf", "DEFGATE {n}(%t) a AS SEQUENCE:\n\t{h}(cos(%t)) a", n=("str", NAMES), h=("str", NAMES)),       # the formal only inside a function call
    Tpl("s1p|xfi", "DEFGATE {n}(%t) a AS SEQUENCE:\n\t{h}(2*sin(%t)) a", n=("str", NAMES), h=("str", NAMES)),    # ... and under an infix operator
    Tpl("s2|x2", "DEFGATE {n} a b AS SEQUENCE:\n\t{h} b a", n=("str", NAMES), h=("str", NAMES)),
    Tpl("s2|x1x1", "DEFGATE {n} a b AS SEQUENCE:\n\t{h} a\n\t{k} b", n=("str", NAMES), h=("str", NAMES), k=("str", NAMES)),
    Tpl("s2|x1", "DEFGATE {n} a b AS SEQUENCE:\n\t{h} a", n=("str", NAMES), h=("str", NAMES)),
    Tpl("s1|empty", "DEFGATE {n} a AS SEQUENCE:\n\tH a", n=("str", NAMES)),           # the element is removed after parsing: only the API can build it
    Tpl("s1|dagger", "DEFGATE {n} a AS SEQUENCE:\n\tDAGGER {h} a", n=("str", NAMES), h=("str", NAMES)),
    Tpl("matrix", "DEFGATE {n} AS MATRIX:" + MATRIX, n=("str", NAMES)),
]
BODY = [
    Tpl("g1", "{g} {q}", g=("str", NAMES), q=("int", Q)),
    Tpl("g1p", "{g}(2.0) {q}", g=("str", NAMES), q=("int", Q)),
    Tpl("g2", "{g} {q} {r}", g=("str", NAMES), q=("int", Q), r=("int", Q)),
    Tpl("g1dagger", "DAGGER {g} {q}", g=("str", NAMES), q=("int", Q)),
    Tpl("g1var", "{g} v", g=("str", NAMES)),
    Tpl("nop", "NOP"),
]
# C21 only: a calibration whose body invokes a (possibly sequence-defined) gate; neither entry point may treat it differently from the other
CALS = [Tpl("cal|x", "DEFCAL P 0:\n\t{h} 0", h=("str", NAMES)), Tpl("cal|xv", "DEFCAL P v:\n\t{h} v", h=("str", NAMES))]
QUICK_DEFS = ("s1|x", "s1|xx", "s1p|xp", "s1p|x-rz", "s1p|xf", "s2|x2", "s2|x1", "s1|empty", "s1|dagger", "matrix")
CHAIN_DEFS, CHAIN_BODY = ("s1|x",), ("g1",)
QUICK_BODY = ("g1", "g1p", "g2", "g1dagger", "g1var")
ERR_KINDS = ("ParameterCount", "GateModifiersUnsupported", "CyclicSequenceGateDefinition", "QubitCount", "NonFixedQubitArgument")


def empty_sequence_value(td, a):
    """remove the elements of a parsed sequence definition (mirsym Instruction value)"""
    gd = a.fields[0]
    seq = gd.fields[td.structs["GateDefinition"].index("specification")].fields[0]
    seq.fields[td.structs["DefGateSequence"].index("gates")] = VecObj([])
    return a


def empty_sequence_tree(td, t):
    gd = t[1][0]
    f = list(gd[1])
    i = td.structs["GateDefinition"].index("specification")
    seq = f[i][1][0]
    sf = list(seq[1]); sf[td.structs["DefGateSequence"].index("gates")] = []
    f[i] = (f[i][0], [(seq[0], sf)])
    return (t[0], [(gd[0], f)])


class Problems(Exception):
    def __init__(self, kinds): self.kinds = kinds


def def_table(td, decide, defs, m=None):
    """[(name tree, definition tree)] with later definitions of a name replacing earlier ones in place"""
    out = []
    for d in defs:
        name = fld(td, d[1][0], "GateDefinition", "name")
        for i, (n, _) in enumerate(out):
            if decide(tree_eq(n, name, m)):
                out[i] = (name, d); break
        else:
            out.append((name, d))
    return out


def lookup(td, decide, table, name, m=None):
    for i, (n, d) in enumerate(table):
        if decide(tree_eq(n, name, m)): return i
    return None


def sequence_of(td, d):
    spec = fld(td, d[1][0], "GateDefinition", "specification")
    return spec[1][0] if spec[0] == "Sequence" else None


def ref_expand(td, decide, table, selected, ins, stack, m=None):
    """reference expansion of one instruction.  Returns None (left unchanged) or (first-level gates, [result per first-level gate]).
    Raises Problems at an invocation that must be reported as an error."""
    if ins[0] != "Gate": return None
    g = ins[1][0]
    name, params, qubits, mods = (fld(td, g, "Gate", k) for k in ("name", "parameters", "qubits", "modifiers"))
    i = lookup(td, decide, table, name, m)
    if i is None: return None
    d = table[i][1]
    seq = sequence_of(td, d)
    if seq is None: return None
    if not decide(selected(name)): return None
    formal = fld(td, d[1][0], "GateDefinition", "parameters")
    sq, sg = fld(td, seq, "DefGateSequence", "qubits"), fld(td, seq, "DefGateSequence", "gates")
    bad = set()
    if len(formal) != len(params): bad.add("ParameterCount")
    if mods: bad.add("GateModifiersUnsupported")
    if i in stack: bad.add("CyclicSequenceGateDefinition")
    if len(sq) != len(qubits): bad.add("QubitCount")
    if any(q[0] != "Fixed" for q in qubits): bad.add("NonFixedQubitArgument")
    if bad: raise Problems(bad)
    qmap = dict(zip(sq, qubits))
    emap = dict(zip(formal, params))
    first = [("Gate", [subst(x, qmap, emap)]) for x in sg]
    return first, [ref_expand(td, decide, table, selected, x, stack + [i], m) for x in first]


def flatten(ins, res):
    if res is None: return [ins]
    first, subs = res
    out = []
    for x, r in zip(first, subs): out += flatten(x, r)
    return out


def kept_reference(td, decide, table, selected, m=None):
    """indices of the definitions that must be kept"""
    seqs = {i: sequence_of(td, d) for i, (n, d) in enumerate(table)}
    edges = {i: set() for i in seqs}
    for i, s in seqs.items():
        if s is None: continue
        for g in fld(td, s, "DefGateSequence", "gates"):
            j = lookup(td, decide, table, fld(td, g, "Gate", "name"), m)
            if j is not None and seqs[j] is not None: edges[i].add(j)
    keep = set()
    for i, s in seqs.items():
        if s is None:
            keep.add(i); continue
        if not decide(selected(table[i][0])):
            todo = [i]
            while todo:
                x = todo.pop()
                if x in keep and x != i: continue
                keep.add(x)
                todo += [y for y in edges[x] if y not in keep]
    return keep


def reference(td, decide, defs, body, selected, m=None):
    """{"err": kinds} or {"body": [...], "per_source": [result per body instruction], "keep": indices, "table": table}"""
    table = def_table(td, decide, defs, m)
    per = []
    for ins in body:
        try:
            per.append(ref_expand(td, decide, table, selected, ins, [], m))
        except Problems as p:
            return {"err": p.kinds, "table": table}
    out = []
    for ins, r in zip(body, per): out += flatten(ins, r)
    return {"body": out, "per_source": per, "keep": kept_reference(td, decide, table, selected, m), "table": table}


# --------------------------------------------------------------------------------------------------------- oracles
def err_kind(e):
    """variant name of the DefGateSequenceExpansionError inside a ProgramError tree or Debug string"""
    s = e if isinstance(e, str) else json.dumps(json_tree(e))
    for k in ERR_KINDS + ("InvalidGateSequenceElementQubit", "UndefinedGateSequenceElementQubit"):
        if k in s: return k
    return None


def oracle_c20(req, decide, td, defs, body, selected, obs, m=None):
    ref = reference(td, decide, defs, body, selected, m)
    for key in ("plain", "mapped"):
        o = obs[key]
        req("terminates", key, not o.get("diverges"))
        if o.get("diverges"): continue
        if "err" in ref:
            if req("error-reported", key, "err" in o):
                req("error-kind", key, err_kind(o["err"]) in ref["err"])
            continue
        if not req("no-spurious-error", key, "err" not in o): continue
        if req("body-length", key, len(o["body"]) == len(ref["body"])):
            for x, y in zip(o["body"], ref["body"]):
                if not req("body-instruction", key, tree_eq(x, y, m)): break
        table = ref["table"]
        want = [table[i][1] for i in sorted(ref["keep"])]
        if req("definitions-kept", key + ":count", len(o["defs"]) == len(want)):
            for d in want:
                req("definitions-kept", key + ":member", or_any(tree_eq(d, x, m) for x in o["defs"]))


def check_map(req, td, sm, src, per, out, m, label):
    """sm: SourceMap tree; src: source instructions of this level; per: reference results per source; out: output slice of this level"""
    entries = sm[1][0]
    if not req("sm:one-entry-per-source", label, len(entries) == len(src)): return
    pos = 0
    for i, (e, s, r) in enumerate(zip(entries, src, per)):
        loc, t = e[1][0][1][0], e[1][1]
        req("sm:source-order", label, loc == i)
        if r is None:
            if not req("sm:unmodified-expected", label, t[0] == "Unmodified"): return
            ti = t[1][0][1][0]
            if req("sm:unmodified-position", label, ti == pos):
                req("sm:unmodified-identical", label, tree_eq(out[ti], s, m))
            pos += 1
        else:
            if not req("sm:rewritten-expected", label, t[0] == "Rewritten"): return
            exp = t[1][0]
            rng = fld(td, exp, "DefGateSequenceExpansion", "range")
            a, b = rng[1][0][1][0], rng[1][1][1][0]
            produced = flatten(s, r)
            if not req("sm:range", label, a == pos and b == pos + len(produced)): return
            sig = fld(td, exp, "DefGateSequenceExpansion", "source_signature")
            req("sm:signature-name", label, tree_eq(fld(td, sig, "GateSignature", "name"), fld(td, s[1][0], "Gate", "name"), m))
            check_map(req, td, fld(td, exp, "DefGateSequenceExpansion", "nested_expansions"), r[0], r[1], out[a:b], m, label + "/nested")
            pos = b
    req("sm:covers-output", label, pos == len(out))


def oracle_c21(req, decide, td, defs, body, selected, obs, m=None):
    p, q = obs["plain"], obs["mapped"]
    if p.get("diverges") or q.get("diverges"): return
    if not req("entry-points:same-verdict", "", ("err" in p) == ("err" in q)): return
    if "err" in p:
        req("entry-points:same-error", "", err_kind(p["err"]) == err_kind(q["err"]))
        return
    if req("entry-points:same-body", "length", len(p["body"]) == len(q["body"])):
        req("entry-points:same-body", "value", and_all(tree_eq(x, y, m) for x, y in zip(p["body"], q["body"])))
    if req("entry-points:same-definitions", "length", len(p["defs"]) == len(q["defs"])):
        req("entry-points:same-definitions", "value", and_all(tree_eq(x, y, m) for x, y in zip(p["defs"], q["defs"])))
    req("entry-points:programs-equal", "", obs.get("programs_equal"))
    from c11 import set_eq
    req("entry-points:same-used-qubits", "", set_eq(p["used_qubits"], q["used_qubits"], m))
    ref = reference(td, decide, defs, body, selected, m)
    if "err" in ref: return            # C20's subject
    check_map(req, td, q["source_map"], body, ref["per_source"], q["body"], m, "top")


# ---------------------------------------------------------------------------------------------------------- driver
class SeqCheck(Check):
    functions = ["Program::{expand_defgate_sequences,expand_defgate_sequences_with_source_map,initialize_defgate_sequence_expander,add_instructions}",
                 "filter_sequence_gate_definitions_to_keep", "ProgramDefGateSequenceExpander::{expand,expand_with_source_map,expand_with_source_map_impl,expand_without_source_map_impl,"
                 "gate_sequence_from_instruction}", "ExpansionStack::{check,with_gate_sequence}", "DefGateSequence::expand", "Expression::substitute_variables", "GateDefinition::signature"]
    assumptions = ["programs of <= K gate definitions (8 sequence shapes of one or two elements, one with the formal parameter inside a function call, one or two qubits, with / without a parameter, plus a matrix definition) with definition and "
                   "element names solver-chosen from {A,B,C} (so nesting, self-reference, cycles, redefinition and arity mismatches all occur), and <= N body instructions from 6 templates",
                   "the filter selects a solver-chosen subset of {A,B,C}", "C21, programs of one definition: optionally one DEFCAL (fixed or variable qubit) whose body invokes a gate named from {A,B,C}", "petgraph Graph / has_path_connecting modelled as adjacency lists with concrete reachability"]
    outside = ["more than K definitions or N body instructions", "sequence elements with more than two qubits", "definitions that DefGateSequence::try_new rejects (they cannot be parsed)"]
    K = {"quick": 2, "thorough": 3}
    N = {"quick": 1, "thorough": 2}
    sample_rate = 16
    max_paths = {"quick": 800000, "thorough": 8000000}
    wall_cap = {"quick": 900, "thorough": 7200}
    DEPTH = 120
    prop = "C20"

    def def_tpls(self, tier): return [t for t in DEFS if tier != "quick" or t.name in QUICK_DEFS]
    def body_tpls(self, tier): return [t for t in BODY if tier != "quick" or t.name in QUICK_BODY]

    def bounds(self, tier):
        return {"definitions": f"<= {self.K[tier]}", "body": f"<= {self.N[tier]}", "definition_shapes": [t.name for t in self.def_tpls(tier)], "body_shapes": [t.name for t in self.body_tpls(tier)],
                "names": NAMES, "filter": "any subset of the names"}

    def setup(self, world, runner, tier):
        self.td = world.td
        parse_templates(runner, world.td, DEFS + BODY + CALS)

    def path(self, m):
        td = m.td
        K = self.K[m.tier]
        # one more definition when every definition is a one-element sequence (chains of three: reachability over two hops)
        k = m.choose([(j, None) for j in range(0, K + 2)])
        dnames = [t.name for t in self.def_tpls(m.tier)] if k <= K else list(CHAIN_DEFS)
        shapes = [m.choose([(x, None) for x in dnames]) for _ in range(k)]
        n = m.choose([(j, None) for j in range(1, self.N[m.tier] + 1)]) if k <= K else 1
        bn = [t.name for t in self.body_tpls(m.tier)] if k <= K else list(CHAIN_BODY)
        bnames = [m.choose([(x, None) for x in bn]) for _ in range(n)]
        cal = m.choose([(x, None) for x in [None] + [t.name for t in CALS]]) if self.prop == "C21" and k == 1 else None
        m.ctx = {"shapes": shapes, "body": bnames, "cal": cal}
        by = {t.name: t for t in DEFS + BODY + CALS}
        sel = [m.fresh_bool(f"sel_{x}") for x in NAMES]
        prog = m.call_path("Program::new", [])
        cell = [prog]
        defs, body = [], []
        for j, s in enumerate(shapes):
            a, hv = instantiate(m, by[s], f"d{j}_")
            if s == "s1|empty": a = empty_sequence_value(td, a)
            defs.append(to_tree(m, a))
            m.call_path("Program::add_instruction", [Ref(cell, 0), a])
        if cal:
            a, hv = instantiate(m, by[cal], "cal_")
            m.call_path("Program::add_instruction", [Ref(cell, 0), a])
        for j, s in enumerate(bnames):
            a, hv = instantiate(m, by[s], f"b{j}_")
            body.append(to_tree(m, a))
            m.call_path("Program::add_instruction", [Ref(cell, 0), a])

        def filt(mm, name):
            s = deref(name)
            if isinstance(s, Agg): s = deref(s.fields[0])
            if s.s is not None: return sel[NAMES.index(s.s)] if s.s in NAMES else False
            return z3.Or([z3.And(s.sym == i, sel[NAMES.index(x)]) for i, x in enumerate(s.alpha) if x in NAMES])

        def selected(name_tree):
            if isinstance(name_tree, str): return sel[NAMES.index(name_tree)] if name_tree in NAMES else False
            return filt(m, name_tree)

        obs = self.observe(m, cell, PyFn(filt, "filter"))
        self.oracle(lambda kk, d, g: m.require(kk, d, g), m.branch_bool, td, defs, body, selected, obs, m)
        if m.want_sample() and m._check() == z3.sat:
            zm = m.solver.model()
            mdl = m.model_dict(zm); mdl["_ctx"] = m.ctx
            c = self.case("sample", "", mdl)
            c["obs"] = json_tree(eval_tree({k: ({kk: vv for kk, vv in v.items() if kk in ("body", "diverges")} if "err" not in v else {"err": err_kind(eval_tree(v["err"], zm, None))}) for k, v in obs.items() if k in ("plain", "mapped")}, zm, None))
            return c
        return None

    def observe(self, m, cell, filt):
        td = m.td
        pidx = td.structs["Program"]
        obs = {}
        old = m.max_depth
        m.max_depth = m.depth + self.DEPTH
        try:
            for key in ("mapped", "plain"):
                try:
                    if key == "plain":
                        r = m.call_path("Program::expand_defgate_sequences::<Filter>", [deep_clone(cell[0]), filt])
                    else:
                        r = m.call_path("Program::expand_defgate_sequences_with_source_map::<Filter>", [Ref(cell, 0), filt])
                except Unsupported as e:
                    if "call depth bound" in str(e):
                        obs[key] = {"diverges": True}
                        continue
                    raise
                m.force_tag(r)
                if r.tag != 0:
                    obs[key] = {"err": to_tree(m, r.fields[0])}
                    continue
                v = r.fields[0]
                prog = v if key == "plain" else v.fields[0]
                o = {"body": to_tree(m, prog.fields[pidx.index("instructions")]),
                     "defs": [("GateDefinition", [to_tree(m, d)]) for _, d in prog.fields[pidx.index("gate_definitions")].items]}
                if key == "mapped": o["source_map"] = to_tree(m, v.fields[1])
                uq = to_tree(m, m.call_path("Program::get_used_qubits", [Ref([prog], 0)]))
                o["used_qubits"] = uq[1] if isinstance(uq, tuple) and uq[0] == "#set" else uq
                o["_prog"] = prog
                obs[key] = o
            if all("_prog" in obs.get(k, {}) for k in ("plain", "mapped")):
                obs["programs_equal"] = m.call_path("<Program as PartialEq>::eq", [Ref([obs["plain"]["_prog"]], 0), Ref([obs["mapped"]["_prog"]], 0)])
            for k in ("plain", "mapped"): obs.get(k, {}).pop("_prog", None)
        finally:
            m.max_depth = old
        return obs

    def oracle(self, req, decide, td, defs, body, selected, obs, m=None):
        (oracle_c20 if self.prop == "C20" else oracle_c21)(req, decide, td, defs, body, selected, obs, m)

    def case(self, kind, detail, model):
        ctx = model["_ctx"]
        by = {t.name: t for t in DEFS + BODY + CALS}
        lines = [by[s].render(hole_values(by[s], f"d{j}_", model)) for j, s in enumerate(ctx["shapes"])]
        if ctx.get("cal"): lines.append(by[ctx["cal"]].render(hole_values(by[ctx["cal"]], "cal_", model)))
        lines += [by[s].render(hole_values(by[s], f"b{j}_", model)) for j, s in enumerate(ctx["body"])]
        empty = [j for j, s in enumerate(ctx["shapes"]) if s == "s1|empty"]
        return {"program": "\n".join(lines), "selected": [x for x in NAMES if model.get(f"sel_{x}")], "empty": empty,
                "empty_names": [hole_values(by["s1|empty"], f"d{j}_", model)["n"] for j in empty], "kind": kind, "detail": detail}

    def native(self, runner, case):
        # a definition that a later one of the same name replaces is not emptied by name
        n_defs = sum(1 for l in case["program"].split("\n") if l.startswith("DEFGATE"))
        names = [l.split()[1].split("(")[0] for l in case["program"].split("\n") if l.startswith("DEFGATE")]
        last = {nm: j for j, nm in enumerate(names)}
        empty_names = [names[j] for j in case.get("empty", []) if last[names[j]] == j]
        r = runner.call({"op": "expand_defgate_sequences", "program": case["program"], "selected": case["selected"], "empty": empty_names}, timeout=15)
        if "plain" not in r:
            if "crash" in r: return {"plain": {"diverges": True}, "mapped": {"diverges": True}, "crash": r["crash"]}, r
            return None, r
        obs = {}
        for key in ("plain", "mapped"):
            o = r[key]
            if "err" in o: obs[key] = {"err": o["err"]}
            else:
                x = o["ok"]
                d = {"body": [parse_debug(t) for t in x["body"]], "defs": [parse_debug(t) for t in x["listing"] if t.startswith("GateDefinition(")]}
                if key == "mapped": d["source_map"] = parse_debug(x["source_map"])
                d["used_qubits"] = [parse_debug(t) for t in x["used_qubits"]]
                obs[key] = d
        if r.get("programs_equal") is not None: obs["programs_equal"] = r["programs_equal"]
        # the definitions as written (before the program's own replace-by-name): parse each definition text on its own
        texts, cur = [], []
        for l in case["program"].split("\n"):
            if l.startswith("\t"): cur.append(l)
            else:
                if cur: texts.append("\n".join(cur))
                cur = [l]
        if cur: texts.append("\n".join(cur))
        pr = runner.call({"op": "parse_instructions", "texts": texts[:n_defs]})
        obs["_defs"] = [parse_debug(x["ok"][0]) for x in pr["results"]]
        for j in case.get("empty", []): obs["_defs"][j] = empty_sequence_tree(self.td, obs["_defs"][j])
        obs["_src"] = [parse_debug(t) for t in r["source_body"]]
        return obs, r

    def confirm(self, runner, case):
        obs, raw = self.native(runner, case)
        if obs is None:
            if "panic" in raw: return True, "panic", f"expansion panics: {raw} on {case['program']!r}"
            return None, "input", str(raw)[:300]
        if "crash" in obs:
            if self.prop != "C20": return None, "diverges", "non-terminating input (C20)"
            return True, "terminates:crash", f"expand_defgate_sequences does not return on {case['program']!r} selected={case['selected']}: runner {obs['crash']}"
        col = Collect()
        sel = set(case["selected"])
        self.oracle(col, bool, self.td, obs["_defs"], obs["_src"], lambda name: name in sel, obs)
        if not col.failed: return False, "", "native run satisfies the oracle"
        kind, detail = col.failed[0]
        return True, f"{kind}:{detail}", f"{kind} ({detail}) fails for {case['program']!r} selected={case['selected']}: plain={str(raw['plain'])[:300]} mapped={str(raw['mapped'])[:500]}"

    def validate(self, runner, sample):
        obs, raw = self.native(runner, sample)
        if obs is None: return f"native failed: {raw}"
        for key in ("plain", "mapped"):
            a, b = obs[key], sample["obs"][key]
            if bool(a.get("diverges")) != bool(b.get("diverges")): return f"{key}: divergence differs on {sample['program']!r}"
            if a.get("diverges"): continue
            if ("err" in a) != ("err" in b): return f"{key}: Ok/Err differs on {sample['program']!r} selected={sample['selected']}: native {a} mirsym {b}"
            if "err" in a:
                if err_kind(a["err"]) != b["err"]: return f"{key}: error kind differs on {sample['program']!r}: native {a['err']} mirsym {b['err']}"
            elif json_tree(a["body"]) != b["body"]: return f"{key}: bodies differ on {sample['program']!r}: {tree_diff(json_tree(a['body']), b['body'])}"
        return None

    def canary(self, runner, tier):
        case = {"program": "DEFGATE A a AS SEQUENCE:\n\tB a\n\tB a\nA 0\nB 1", "selected": ["A"]}
        obs, raw = self.native(runner, case)
        if obs is None: return f"canary input failed natively: {raw}"
        col = Collect()
        if self.prop == "C20": obs["plain"]["body"] = list(obs["_src"])
        else: obs["mapped"]["source_map"] = ("SourceMap", [[]])
        self.oracle(col, bool, self.td, obs["_defs"], obs["_src"], lambda name: name == "A", obs)
        return True if col.failed else "oracle accepted a wrong expansion result"
