"""C22 — see sched.py (shared driver of the block dependency-graph properties)."""
from sched import *


class C22(SchedCheck):
    id = "C22"
    prop = "C22"
    title = {"C22": "Every block's dependency graph is a well-formed DAG", "C23": "Memory accesses are sequentially consistent in the dependency graph",
             "C24": "Frame conflicts are ordered and every frame edge is justified"}["C22"]

    def canary(self, runner, tier):
        case = {"program": FRAMES + "\nMOVE x[0] 1\nMOVE y[0] x[0]", "body": ["MOVE x[0] 1", "MOVE y[0] x[0]"], "names": ["move-lit", "move-ref"], "term": "none"} if "C22" != "C24" else \
               {"program": FRAMES + '\nPULSE 0 "a" ' + WF + '\nPULSE 0 "a" ' + WF, "body": ['PULSE 0 "a" ' + WF, 'PULSE 0 "a" ' + WF], "names": ["pulse", "pulse"], "term": "none"}
        obs, raw = self.native(runner, case)
        if obs is None: return f"canary input failed natively: {raw}"
        col = Collect()
        info, edges = obs[0], obs[1][0]
        if "C22" == "C22": bad = edges + [(("InstructionIndex", [1]), ("InstructionIndex", [0]), [("StableOrdering", [])])]
        else: bad = [e for e in edges if not (e[0][0] == "InstructionIndex" and e[1][0] == "InstructionIndex")]
        oracle("C22", col, info, bad)
        return True if col.failed else "oracle accepted a broken graph"


CHECK = C22()
