"""C10 — a program's used-qubit set and equality depend only on its content."""
from containers import *
from c11 import set_eq, normalize_obs

TP_ALL = [t for t in TPLS if t.name in ("declare", "defframe", "defcal", "defcalmeasure", "pragma", "gate", "measure", "defgate")]
# a sequence gate that ignores its second qubit, and an invocation of it: expansion drops a qubit from the listing
# (the body gate is a two-qubit gate named X or S; one template per Instruction variant)
SEQ = [Tpl("defgate", "DEFGATE S a b AS SEQUENCE:\n\tX a"), Tpl("gate", "{g} {q} {r}", g=("str", ["X", "S"]), q=("int", [0, 1, 2]), r=("int", [0, 1, 2]))]
TP = [t for t in TPLS if t.name in ("declare", "defcal", "defcalmeasure")] + SEQ
OPS = {"quick": ["add_instruction", "add_assign", "clone_without_body", "rebuild", "wrap_in_loop2", "expand_defgate_sequences"],
       "thorough": ["add_instruction", "add_assign", "clone_without_body", "clone", "rebuild", "wrap_in_loop2", "wrap_in_loop0", "wrap_in_loop1", "expand_defgate_sequences",
                    "expand_calibrations", "simplify", "resolve_placeholders"]}
STATUS_OPS = ("expand_defgate_sequences", "expand_calibrations", "simplify")          # these script steps also report Ok / Err


RESET_OPS = ("clone_without_body", "wrap_in_loop0", "wrap_in_loop2", "expand_defgate_sequences", "expand_calibrations", "simplify")


def oracle(req, steps, obs, m=None):
    """obs: per step [used_qubits, get_qubits-per-instruction]; then eq(p, rebuilt), listing(p), listing(rebuilt)"""
    k = 0
    for i, name in enumerate(steps):
        if name in STATUS_OPS: k += 1
        used, per_ins = obs[k], obs[k + 1]
        k += 2
        mentioned = [q for qs in per_ins for q in qs]
        req("used-qubits", f"after:{i}:{name}", set_eq(used, mentioned, m))
    eq_pr, l_p, l_r = obs[k], obs[k + 1], obs[k + 2]
    same = len(l_p) == len(l_r) and and_all(tree_eq(x, y, m) for x, y in zip(l_p, l_r))
    req("rebuild-listing-equal", "", same)
    req("equal-listing-implies-eq", "after:" + "+".join(steps[1:]), eq_pr)


PH_KINDS = ["gate2", "measure", "defcal"]
NPH = 2


def ph_oracle(req, used_b, ment_b, used_a, ment_a, m=None):
    req("used-qubits", "after:ph-build", set_eq(used_b, ment_b, m))
    req("used-qubits", "after:ph-resolve", set_eq(used_a, ment_a, m))


def ph_program(m, td, items, qph):
    """items: (kind, [qubit specs], [body qubit specs]); spec = ("fixed", value) | ("ph", id)"""
    def q(spec):
        if spec[0] == "fixed": return Agg("Qubit", td.enums["Qubit"].index("Fixed"), [spec[1]])
        return Agg("Qubit", td.enums["Qubit"].index("Placeholder"), [qph[spec[1]]])

    def st(sname, **kw):
        a = Agg(sname, None, [None] * len(td.structs[sname]))
        for kk, v in kw.items(): a.fields[td.structs[sname].index(kk)] = v
        return a
    V = td.enums["Instruction"].index
    prog = m.call_path("Program::new", [])
    cell = [prog]
    for k, qs, bq in items:
        if k == "gate2":
            ins = Agg("Instruction", V("Gate"), [st("Gate", name=Str("X"), parameters=VecObj(), qubits=VecObj([q(x) for x in qs]), modifiers=VecObj())])
        elif k == "measure":
            ins = Agg("Instruction", V("Measurement"), [st("Measurement", name=NONE(), qubit=q(qs[0]), target=NONE())])
        else:
            ident = st("CalibrationIdentifier", modifiers=VecObj(), name=Str("X"), parameters=VecObj(), qubits=VecObj([q(x) for x in qs]))
            fence = Agg("Instruction", V("Fence"), [Agg("Fence", None, [VecObj([q(x) for x in bq])])])
            ins = Agg("Instruction", V("CalibrationDefinition"), [st("CalibrationDefinition", identifier=ident, instructions=VecObj([fence]))])
        m.call_path("Program::add_instruction", [Ref(cell, 0), ins])
    return cell


def ph_observe(m, cell):
    r = m.call_path("Program::get_used_qubits", [Ref(cell, 0)])
    t = to_tree(m, r)
    used = t[1] if isinstance(t, tuple) and t[0] == "#set" else t
    lst = m.call_path("Program::to_instructions", [Ref(cell, 0)])
    ment = []
    for i in range(len(lst.items)):
        ment += list(to_tree(m, m.call_path("Instruction::get_qubits", [Ref(lst.items, i)])))
    return used, ment


class C10(Check):
    id = "C10"
    title = "A program's used-qubit set and equality depend only on its content"
    functions = ["Program::{from_instructions,add_instruction,clone_without_body_instructions,wrap_in_loop,get_used_qubits,to_instructions}", "<Program as AddAssign>::add_assign",
                 "<Program as PartialEq>::eq", "Instruction::get_qubits", "Calibrations::*", "CalibrationSet::*"]
    assumptions = ["HashSet<Qubit> modelled as a set with structural Eq of Qubit (interpreted PartialEq for placeholders is not exercised: fixed qubits only)",
                   "histories: a start sequence followed by operations from the listed alphabet (gate-sequence expansion with the filter `all`; calibration expansion, simplify and resolve_placeholders in the thorough tier)"]
    outside = ["histories longer than the bound", "placeholder programs combined with the other history operations (the placeholder mode runs build + resolve_placeholders only)", "target placeholders (C34)"]
    PH_N = {"quick": 2, "thorough": 3}
    N = {"quick": 1, "thorough": 2}
    H = {"quick": 2, "thorough": 3}
    sample_rate = 128
    max_paths = {"quick": 400000, "thorough": 6000000}

    def bounds(self, tier):
        return {"placeholder_mode": f"<= {self.PH_N[tier]} API-built instructions from {PH_KINDS}, qubits: any u64 or one of {NPH} placeholders", "start_sequence": f"<= {self.N[tier]}", "history_length": f"<= {self.H[tier]}", "operations": OPS[tier], "templates": [t.name for t in TP]}

    def setup(self, world, runner, tier):
        self.td = world.td
        parse_templates(runner, world.td, TP)

    def build_script(self, n, ops):
        """instructions 0..n-1 = start; n+j = the extra instruction of history step j"""
        s = [["from", "p", list(range(n))], ["used_qubits", "p"], ["get_qubits", "p"]]
        for j, op in enumerate(ops):
            x = n + j
            if op == "add_instruction": s.append(["add_instructions", "p", [x]])
            elif op == "add_assign": s += [["from", "q", [x]], ["add_assign", "p", "q"]]
            elif op == "clone_without_body": s.append(["clone_without_body", "p", "p"])
            elif op == "clone": s.append(["clone", "p", "p"])
            elif op == "rebuild": s.append(["rebuild", "p", "p"])
            elif op.startswith("wrap_in_loop"): s.append(["wrap_in_loop", "p", "p", int(op[-1])])
            elif op in STATUS_OPS: s.append([op, "p", "p"])
            elif op == "resolve_placeholders": s.append(["resolve_placeholders", "p"])
            s += [["used_qubits", "p"], ["get_qubits", "p"]]
        s += [["rebuild", "r", "p"], ["eq", "p", "r"], ["to_instructions", "p"], ["to_instructions", "r"]]
        return s

    def path_ph(self, m):
        """programs built through the API with qubit placeholders in the body and inside a DEFCAL, then resolve_placeholders"""
        td = m.td
        n = m.choose([(k, None) for k in range(1, self.PH_N[m.tier] + 1)])
        qph = [Agg("QubitPlaceholder", None, [Agg("Arc", None, [1000 + i])]) for i in range(NPH)]
        items, spec, nq = [], [], 0

        def pick():
            nonlocal nq
            c = m.choose([("fixed", None)] + [(("ph", p), None) for p in range(NPH)])
            if c == "fixed":
                v = m.fresh_bv(f"q{nq}", 64); nq += 1
                return ("fixed", v), ["fixed", f"q{nq - 1}"]
            return ("ph", c[1]), ["ph", c[1]]
        for i in range(n):
            k = m.choose([(x, None) for x in PH_KINDS])
            qs, bq = [], []
            for j in range({"gate2": 2, "measure": 1, "defcal": 1}[k]): qs.append(pick())
            if k == "defcal": bq.append(pick())
            items.append((k, [a for a, _ in qs], [a for a, _ in bq]))
            spec.append({"kind": {"gate2": "gate"}.get(k, k), "qubits": [b for _, b in qs], "body_qubits": [b for _, b in bq]})
        m.ctx = {"mode": "ph", "spec": spec}
        cell = ph_program(m, td, items, qph)
        used_b, ment_b = ph_observe(m, cell)
        m.call_path("Program::resolve_placeholders", [Ref(cell, 0)])
        used_a, ment_a = ph_observe(m, cell)
        ph_oracle(lambda k, d, g: m.require(k, d, g), used_b, ment_b, used_a, ment_a, m)
        if m.want_sample() and m._check() == z3.sat:
            zm = m.solver.model()
            mdl = m.model_dict(zm); mdl["_ctx"] = m.ctx
            c = self.case("sample", "", mdl)
            c["obs"] = json_tree(eval_tree([used_b, ment_b, used_a, ment_a], zm, None))
            return c
        return None

    def path(self, m):
        if m.choose([("script", None), ("ph", None)]) == "ph": return self.path_ph(m)
        n = m.choose([(k, None) for k in range(0, self.N[m.tier] + 1)])
        h = m.choose([(k, None) for k in range(1, self.H[m.tier] + 1)])
        ops = [m.choose([(o, None) for o in OPS[m.tier]]) for _ in range(h)]
        m.ctx = {"mode": "script", "n": n, "ops": ops}
        ins = sym_instructions(m, n + h, "i", TP)
        obs = run_script(m, self.build_script(n, ops), ins)
        oracle(lambda k, d, g: m.require(k, d, g), ["build"] + ops, obs, m)
        if m.want_sample() and m._check() == z3.sat:
            zm = m.solver.model()
            mdl = m.model_dict(zm)
            return {"n": n, "ops": ops, "texts": texts_from_model(self.td, n + h, mdl, "i", TP), "obs": json_tree(eval_tree(obs, zm, None))}
        return None

    def case(self, kind, detail, model):
        ctx = model["_ctx"]
        if ctx.get("mode") == "ph":
            spec = []
            for it in ctx["spec"]:
                f = lambda qs: [["fixed", model.get(q[1], 0)] if q[0] == "fixed" else ["ph", q[1]] for q in qs]
                spec.append({"kind": it["kind"], "qubits": f(it["qubits"]), "body_qubits": f(it["body_qubits"])})
            return {"mode": "ph", "spec": spec, "kind": kind, "detail": detail}
        n, ops = ctx["n"], ctx["ops"]
        return {"n": n, "ops": ops, "texts": texts_from_model(self.td, n + len(ops), model, "i", TP), "kind": kind, "detail": detail}

    def rank(self, model):
        if model["_ctx"].get("mode") == "ph": return 0
        # try counterexamples whose history has no cache-resetting operation first (they cannot be explained by the known finding)
        return sum(1 for o in model["_ctx"]["ops"] if o in RESET_OPS)

    def native_ph(self, runner, case):
        r = runner.call({"op": "placeholders", "spec": case["spec"], "custom": None})
        if "used_qubits" not in r: return None, r
        return [[parse_debug(x) for x in r[k]] for k in ("used_before", "mentioned_before", "used_qubits", "mentioned_after")], r

    def confirm_ph(self, runner, case):
        obs, raw = self.native_ph(runner, case)
        if obs is None:
            if "panic" in raw or "crash" in raw: return True, "panic", f"panics on {case['spec']}: {raw}"
            return False, "input", str(raw)[:300]
        col = Collect()
        ph_oracle(col, *obs)
        if not col.failed: return False, "", "native run satisfies the oracle"
        kind, detail = col.failed[0]
        used, ment = (obs[0], obs[1]) if detail == "after:ph-build" else (obs[2], obs[3])
        missing = [q for q in ment if not any(tree_eq(q, u) is True for u in used)]
        role = f"used-qubits:{detail}:" + ("missing" if missing else "extra")
        return True, role, f"{kind} ({detail}) fails for the API-built program {case['spec']}: used={used} mentioned={ment}"

    def native(self, runner, case):
        obs, raw = native_script(runner, self.build_script(case["n"], case["ops"]), case["texts"])
        return obs, raw

    def confirm(self, runner, case):
        if case.get("mode") == "ph": return self.confirm_ph(runner, case)
        obs, raw = self.native(runner, case)
        if obs is None:
            if "panic" in raw or "crash" in raw: return True, "panic", f"panics on {case}: {raw}"
            return False, "input", str(raw)[:300]
        col = Collect()
        oracle(col, ["build"] + case["ops"], obs)
        if not col.failed: return False, "", "native run satisfies the oracle"
        want = (case.get("kind"), case.get("detail"))
        kind, detail = want if want in col.failed else col.failed[0]
        # attribute to the cause: the first step whose cache obligation fails explains every later failure of the
        # same history (a stale or reset cache stays wrong until it is rebuilt)
        steps = ["build"] + case["ops"]
        first = next(((k, d) for k, d in col.failed if k == "used-qubits"), None)
        if first is not None:
            i = next(j for j, nm in enumerate(steps) if ("used-qubits", f"after:{j}:{nm}") in col.failed)
            k = 2 * i + sum(1 for nm in steps[:i + 1] if nm in STATUS_OPS)
            used, per_ins = obs[k], obs[k + 1]
            mentioned = [q for qs in per_ins for q in qs]
            missing = [q for q in mentioned if not any(tree_eq(q, u) is True for u in used)]
            role = f"used-qubits:after:{steps[i]}:" + ("missing" if missing else "extra")
        elif kind == "equal-listing-implies-eq":
            role = "equal-listing-implies-eq:" + "+".join(case["ops"])
        else:
            role = f"{kind}:{detail}"
        return True, role, f"{kind} ({detail}) fails for start={case['texts'][:case['n']]} history={list(zip(case['ops'], case['texts'][case['n']:]))}"

    def validate(self, runner, sample):
        if sample.get("mode") == "ph":
            obs, raw = self.native_ph(runner, sample)
            if obs is None: return f"native run failed: {raw}"
            # placeholder identities differ between the two worlds: compare the fixed qubits and the counts
            def norm(lst): return (sorted(str(x) for x in lst if x[0] == "Fixed"), sum(1 for x in lst if x[0] != "Fixed"))
            a, b = [norm(x) for x in json_tree(obs)], [norm(x) for x in sample["obs"]]
            if a != b: return f"placeholder-mode observations differ for {sample['spec']}: {a} vs {b}"
            return None
        obs, raw = self.native(runner, sample)
        if obs is None: return f"native run failed: {raw}"
        a, b = [normalize_obs(x) for x in json_tree(obs)], [normalize_obs(x) for x in sample["obs"]]
        if a != b: return "observations differ: " + str(tree_diff(a, b))
        return None

    def canary(self, runner, tier):
        case = {"n": 1, "ops": ["add_instruction"], "texts": ["X 0 0", "X 1 1"]}
        obs, raw = self.native(runner, case)
        col = Collect()
        obs[2] = obs[2][:1]          # pretend the cache missed qubit 1
        oracle(col, ["build"] + case["ops"], obs)
        return True if any(k == "used-qubits" for k, _ in col.failed) else "oracle accepted a stale cache"


CHECK = C10()
