"""C10 — a program's used-qubit set and equality depend only on its content."""
from containers import *
from c11 import set_eq, normalize_obs

TP_ALL = [t for t in TPLS if t.name in ("declare", "defframe", "defcal", "defcalmeasure", "pragma", "gate", "measure", "defgate")]
# a sequence gate that ignores its second qubit, and an invocation of it: expansion drops a qubit from the listing
# (the body gate is a two-qubit gate named X or S; one template per Instruction variant)
SEQ = [Tpl("defgate", "DEFGATE S a b AS SEQUENCE:\n\tX a"), Tpl("gate", "{g} {q} {r}", g=("str", ["X", "S"]), q=("int", [0, 1, 2]), r=("int", [0, 1, 2]))]
TP = [t for t in TPLS if t.name in ("declare", "defcal", "defcalmeasure")] + SEQ
OPS = {"quick": ["add_instruction", "add_assign", "clone_without_body", "rebuild", "wrap_in_loop2", "expand_defgate_sequences"],
       "thorough": ["add_instruction", "add_assign", "clone_without_body", "clone", "rebuild", "wrap_in_loop2", "wrap_in_loop0", "wrap_in_loop1", "expand_defgate_sequences",
                    "expand_calibrations", "simplify", "resolve_placeholders"]}
STATUS_OPS = ("expand_defgate_sequences", "expand_calibrations", "simplify")          # these script steps also report Ok / Err


RESET_OPS = ("clone_without_body", "wrap_in_loop0", "wrap_in_loop2", "expand_defgate_sequences", "expand_calibrations", "simplify")


def oracle(req, steps, obs, m=None):
    """obs: per step [used_qubits, get_qubits-per-instruction]; then eq(p, rebuilt), listing(p), listing(rebuilt)"""
    k = 0
    for i, name in enumerate(steps):
        if name in STATUS_OPS: k += 1
        used, per_ins = obs[k], obs[k + 1]
        k += 2
        mentioned = [q for qs in per_ins for q in qs]
        req("used-qubits", f"after:{i}:{name}", set_eq(used, mentioned, m))
    eq_pr, l_p, l_r = obs[k], obs[k + 1], obs[k + 2]
    same = len(l_p) == len(l_r) and and_all(tree_eq(x, y, m) for x, y in zip(l_p, l_r))
    req("rebuild-listing-equal", "", same)
    req("equal-listing-implies-eq", "after:" + "+".join(steps[1:]), eq_pr)


class C10(Check):
    id = "C10"
    title = "A program's used-qubit set and equality depend only on its content"
    functions = ["Program::{from_instructions,add_instruction,clone_without_body_instructions,wrap_in_loop,get_used_qubits,to_instructions}", "<Program as AddAssign>::add_assign",
                 "<Program as PartialEq>::eq", "Instruction::get_qubits", "Calibrations::*", "CalibrationSet::*"]
    assumptions = ["HashSet<Qubit> modelled as a set with structural Eq of Qubit (interpreted PartialEq for placeholders is not exercised: fixed qubits only)",
                   "histories: a start sequence followed by operations from the listed alphabet (gate-sequence expansion with the filter `all`; calibration expansion, simplify and resolve_placeholders in the thorough tier)"]
    outside = ["histories longer than the bound", "programs with placeholders (resolve_placeholders is exercised on placeholder-free programs only: C34 covers the rest)"]
    N = {"quick": 1, "thorough": 2}
    H = {"quick": 2, "thorough": 3}
    sample_rate = 128
    max_paths = {"quick": 400000, "thorough": 6000000}

    def bounds(self, tier):
        return {"start_sequence": f"<= {self.N[tier]}", "history_length": f"<= {self.H[tier]}", "operations": OPS[tier], "templates": [t.name for t in TP]}

    def setup(self, world, runner, tier):
        self.td = world.td
        parse_templates(runner, world.td, TP)

    def build_script(self, n, ops):
        """instructions 0..n-1 = start; n+j = the extra instruction of history step j"""
        s = [["from", "p", list(range(n))], ["used_qubits", "p"], ["get_qubits", "p"]]
        for j, op in enumerate(ops):
            x = n + j
            if op == "add_instruction": s.append(["add_instructions", "p", [x]])
            elif op == "add_assign": s += [["from", "q", [x]], ["add_assign", "p", "q"]]
            elif op == "clone_without_body": s.append(["clone_without_body", "p", "p"])
            elif op == "clone": s.append(["clone", "p", "p"])
            elif op == "rebuild": s.append(["rebuild", "p", "p"])
            elif op.startswith("wrap_in_loop"): s.append(["wrap_in_loop", "p", "p", int(op[-1])])
            elif op in STATUS_OPS: s.append([op, "p", "p"])
            elif op == "resolve_placeholders": s.append(["resolve_placeholders", "p"])
            s += [["used_qubits", "p"], ["get_qubits", "p"]]
        s += [["rebuild", "r", "p"], ["eq", "p", "r"], ["to_instructions", "p"], ["to_instructions", "r"]]
        return s

    def path(self, m):
        n = m.choose([(k, None) for k in range(0, self.N[m.tier] + 1)])
        h = m.choose([(k, None) for k in range(1, self.H[m.tier] + 1)])
        ops = [m.choose([(o, None) for o in OPS[m.tier]]) for _ in range(h)]
        m.ctx = {"n": n, "ops": ops}
        ins = sym_instructions(m, n + h, "i", TP)
        obs = run_script(m, self.build_script(n, ops), ins)
        oracle(lambda k, d, g: m.require(k, d, g), ["build"] + ops, obs, m)
        if m.want_sample() and m._check() == z3.sat:
            zm = m.solver.model()
            mdl = m.model_dict(zm)
            return {"n": n, "ops": ops, "texts": texts_from_model(self.td, n + h, mdl, "i", TP), "obs": json_tree(eval_tree(obs, zm, None))}
        return None

    def case(self, kind, detail, model):
        ctx = model["_ctx"]
        n, ops = ctx["n"], ctx["ops"]
        return {"n": n, "ops": ops, "texts": texts_from_model(self.td, n + len(ops), model, "i", TP), "kind": kind, "detail": detail}

    def rank(self, model):
        # try counterexamples whose history has no cache-resetting operation first (they cannot be explained by the known finding)
        return sum(1 for o in model["_ctx"]["ops"] if o in RESET_OPS)

    def native(self, runner, case):
        obs, raw = native_script(runner, self.build_script(case["n"], case["ops"]), case["texts"])
        return obs, raw

    def confirm(self, runner, case):
        obs, raw = self.native(runner, case)
        if obs is None:
            if "panic" in raw or "crash" in raw: return True, "panic", f"panics on {case}: {raw}"
            return False, "input", str(raw)[:300]
        col = Collect()
        oracle(col, ["build"] + case["ops"], obs)
        if not col.failed: return False, "", "native run satisfies the oracle"
        want = (case.get("kind"), case.get("detail"))
        kind, detail = want if want in col.failed else col.failed[0]
        # attribute to the cause: the first step whose cache obligation fails explains every later failure of the
        # same history (a stale or reset cache stays wrong until it is rebuilt)
        steps = ["build"] + case["ops"]
        first = next(((k, d) for k, d in col.failed if k == "used-qubits"), None)
        if first is not None:
            i = next(j for j, nm in enumerate(steps) if ("used-qubits", f"after:{j}:{nm}") in col.failed)
            k = 2 * i + sum(1 for nm in steps[:i + 1] if nm in STATUS_OPS)
            used, per_ins = obs[k], obs[k + 1]
            mentioned = [q for qs in per_ins for q in qs]
            missing = [q for q in mentioned if not any(tree_eq(q, u) is True for u in used)]
            role = f"used-qubits:after:{steps[i]}:" + ("missing" if missing else "extra")
        elif kind == "equal-listing-implies-eq":
            role = "equal-listing-implies-eq:" + "+".join(case["ops"])
        else:
            role = f"{kind}:{detail}"
        return True, role, f"{kind} ({detail}) fails for start={case['texts'][:case['n']]} history={list(zip(case['ops'], case['texts'][case['n']:]))}"

    def validate(self, runner, sample):
        obs, raw = self.native(runner, sample)
        if obs is None: return f"native run failed: {raw}"
        a, b = [normalize_obs(x) for x in json_tree(obs)], [normalize_obs(x) for x in sample["obs"]]
        if a != b: return "observations differ: " + str(tree_diff(a, b))
        return None

    def canary(self, runner, tier):
        case = {"n": 1, "ops": ["add_instruction"], "texts": ["X 0 0", "X 1 1"]}
        obs, raw = self.native(runner, case)
        col = Collect()
        obs[2] = obs[2][:1]          # pretend the cache missed qubit 1
        oracle(col, ["build"] + case["ops"], obs)
        return True if any(k == "used-qubits" for k, _ in col.failed) else "oracle accepted a stale cache"


CHECK = C10()
