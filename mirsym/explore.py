"""Path exploration, native confirmation, evidence and exit codes for one property check."""
import concurrent.futures as cf
import collections, hashlib, json, multiprocessing as mp, os, random, sys, time, traceback

import z3
from values import *
from machine import Machine
from world import World, BuildError, VERIF, REPO
import native

_W = None      # World (created before the workers fork)
_C = None      # Check instance
_OPTS = {}


class Check:
    """Base class of a property check. Subclasses define:

    id, title, functions (entry points, for the evidence), bounds(tier) -> dict
    setup(world, runner, tier)              once, before exploration (native template parsing etc.)
    path(m) -> sample|None                  one symbolic path: build input, run the real code, m.require(...)
    case(kind, detail, model) -> dict       concrete replay case for a candidate violation (JSON-able)
    confirm(runner, case) -> (bool, role, text)   native replay: does the real crate violate the property on `case`?
    validate(runner, sample) -> None|str    translator validation: compare mirsym's concrete result with the native one
    """
    id = "C00"
    title = ""
    functions = []
    assumptions = []
    outside = []
    tolerate_unsupported = False
    solver_timeout_ms = 10000
    max_paths = {"quick": 20000, "thorough": 400000}

    def bounds(self, tier): return {}
    def setup(self, world, runner, tier): pass
    def validate(self, runner, sample): return None
    def canary(self, runner, tier): return None


def _worker_path(decisions):
    global _W, _C
    t0 = time.time()
    m = Machine(_W, decisions, timeout_ms=_C.solver_timeout_ms)
    m.tier = _OPTS.get("tier", "quick")
    m.seed = _OPTS.get("seed", 0)
    m.sample_rate = getattr(_C, "sample_rate", 8)
    rec = {"decisions": None, "outcome": "ok", "findings": [], "sample": None, "pending": None, "why": None}
    c0 = collections.Counter(_W.counters)
    try:
        rec["sample"] = _C.path(m)
    except Panic as e:
        rec["outcome"] = "panic"; rec["why"] = str(e)[:300]
    except PathEnd as e:
        rec["outcome"] = "pathend"; rec["why"] = str(e)[:300]
    except Unsupported as e:
        rec["outcome"] = "unsupported"; rec["why"] = str(e)[:400] + " @ " + m.where()[:300]
    except z3.Z3Exception as e:
        rec["outcome"] = "unsupported"; rec["why"] = "z3: " + str(e)[:300] + " @ " + m.where()[:300]
    except (AttributeError, TypeError, KeyError, IndexError, ValueError, AssertionError, RecursionError) as e:
        tb = traceback.extract_tb(sys.exc_info()[2])[-1]
        rec["outcome"] = "unsupported"
        rec["why"] = f"INTERNAL {type(e).__name__}: {str(e)[:200]} [{os.path.basename(tb.filename)}:{tb.lineno}] @ {m.where()[:300]}"
    rec["decisions"] = m.decisions[:m.dpos] if rec["outcome"] != "ok" else m.decisions
    rec["pending"] = m.pending
    rec["findings"] = m.findings
    rec["steps"], rec["queries"], rec["solver_s"], rec["unknown"] = m.steps, m.queries, m.solver_time, m.unknowns
    rec["fns"], rec["models"] = m.fns_used, m.models_used
    d = collections.Counter(_W.counters); d.subtract(c0)
    rec["counters"] = dict(d)
    rec["wall"] = time.time() - t0
    return rec


def _worker_batch(start, budget):
    """explore the subtree below the decision prefix `start` depth-first for at most `budget` paths;
    returns the per-path records (slimmed) and the unexplored prefixes"""
    import gc
    stack = [start]
    recs = []
    fns, models = set(), set()
    while stack and len(recs) < budget:
        d = stack.pop()
        rec = _worker_path(d)
        stack.extend(rec.pop("pending"))
        fns |= rec.pop("fns"); models |= rec.pop("models")
        recs.append(rec)
    gc.collect()
    return recs, stack, fns, models


def load_known():
    p = os.path.join(VERIF, "known_findings.json")
    if not os.path.exists(p): return {"findings": [], "fixed": []}
    return json.load(open(p))


def run_check(check, tier="quick", seed=0, workers=None, replay=None, log=sys.stdout, partial_budget_s=0, extra_cov=None):
    """partial_budget_s > 0: explore for at most that long; a truncated exploration without violation is reported as such (exit 0,
    evidence `exhaustive: false`), used for the deeper level of the thorough tier after the quick bounds were explored exhaustively"""
    global _W, _C, _OPTS
    t_start = time.time()
    pid = check.id
    ev_path = os.path.join(VERIF, "evidence", pid + ".json")
    os.makedirs(os.path.dirname(ev_path), exist_ok=True)
    workers = workers or int(os.environ.get("VERIF_WORKERS", "0")) or min(16, os.cpu_count() or 4)

    def say(*a):
        print(*a, file=log, flush=True)

    try:
        world = World()
    except BuildError as e:
        say(f"INCONCLUSIVE property={pid} reason=tree-does-not-build")
        say(str(e)[-1500:])
        write_evidence(ev_path, pid, tier, seed, {"states": 0, "transitions": 0, "traces_validated_against_impl": 0, "samples": [],
                       "explanation": "the current /repo tree does not compile; nothing was checked", "evaluations": 0, "distinct_nontrivial": 0}, [], time.time() - t_start, 0)
        return 2
    try:
        runner = native.Runner("dev")
    except native.NativeError as e:
        say(f"INCONCLUSIVE property={pid} reason=replay-runner-does-not-build")
        say(str(e)[-1500:])
        return 2

    if replay:
        case = json.load(open(replay))
        ok, role, text = check.confirm(runner, case["case"] if "case" in case else case)
        say(f"replay {replay}: {'VIOLATION reproduced' if ok else 'not reproduced'} role={role} {text}")
        runner.close()
        return 1 if ok else 0

    _W, _C, _OPTS = world, check, {"tier": tier, "seed": seed}
    check.tier, check.seed = tier, seed
    check.setup(world, runner, tier)
    world.impl_index()

    max_paths = check.max_paths[tier]
    rnd = random.Random(seed)
    pending = [[]]
    stats = collections.Counter()
    unsupported = collections.Counter()
    fns, models = set(), set()
    findings = []         # (kind, detail, model)
    samples = []
    solver_s = 0.0
    counters = collections.Counter()
    outcomes = collections.Counter()
    ctx = mp.get_context("fork")
    t_explore = time.time()
    budget_s = float(os.environ.get("VERIF_BUDGET_S", "0")) or check.budget_s(tier) if hasattr(check, "budget_s") else 0
    truncated = False
    hung = False
    wall_cap = float(os.environ.get("VERIF_WALL_CAP_S", "0")) or max(getattr(check, "wall_cap", {"quick": 1800, "thorough": 5400})[tier], 1800 if tier == "quick" else 0)
    if partial_budget_s: wall_cap = min(wall_cap, partial_budget_s)
    with cf.ProcessPoolExecutor(max_workers=workers, mp_context=ctx) as ex:
        running = set()
        while pending or running:
            # small batches while the frontier is narrow, larger ones once every worker is busy
            batch = 4 if len(pending) + len(running) < workers * 2 else 64
            while pending and len(running) < workers * 2 and stats["paths"] + len(running) * batch < max_paths:
                d = pending.pop(rnd.randrange(len(pending)) if seed and len(pending) > 1 else 0)
                running.add(ex.submit(_worker_batch, d, batch)); stats["tasks"] += 1
            if not running:
                truncated = bool(pending)
                break
            done, running = cf.wait(running, timeout=10, return_when=cf.FIRST_COMPLETED)
            if time.time() - t_explore > wall_cap:
                # watchdog: a stuck solver query or an exploding frontier must not hang the check
                truncated = True
                hung = not partial_budget_s          # with a time budget this is the expected end of a partial exploration
                for p in list(getattr(ex, "_processes", {}).values()):
                    try: p.kill()
                    except Exception: pass
                break
            for f in done:
                recs, rest, f_fns, f_models = f.result()
                pending.extend(rest)
                fns |= f_fns; models |= f_models
                for rec in recs:
                    stats["paths"] += 1
                    stats["steps"] += rec["steps"]; stats["queries"] += rec["queries"]; stats["unknown"] += rec["unknown"]
                    stats["transitions"] += len(rec["decisions"])
                    solver_s += rec["solver_s"]
                    outcomes[rec["outcome"]] += 1
                    counters.update(rec["counters"])
                    if rec["outcome"] == "unsupported": unsupported[rec["why"]] += 1
                    for fd in rec["findings"]: findings.append(fd)
                    if rec["sample"] is not None and len(samples) < 4000: samples.append(rec["sample"])
            if budget_s and time.time() - t_explore > budget_s and (pending or running):
                truncated = True
                for f in running: f.cancel()
                break
    explore_s = time.time() - t_explore
    say(f"[{pid}] explored {stats['paths']} paths ({dict(outcomes)}) in {explore_s:.1f}s; {stats['queries']} solver queries, {solver_s:.1f}s solver time; "
        f"{len(fns)} crate functions interpreted; {stats['tasks']} worker tasks; obligations {counters['obligations']} discharged {counters['discharged']}")

    # ---- candidate violations: one native confirmation per distinct role
    known = load_known()
    known_roles = {(k["property"], k["role"]): k for k in known.get("findings", [])}
    confirmed, unconfirmed, known_hit = {}, [], {}
    by_key = collections.OrderedDict()
    for kind, detail, model in findings:
        by_key.setdefault((kind, str(detail)[:200]), []).append(model)
    replay_dir = os.path.join(VERIF, "evidence", "replay")
    n_cases = 0
    outside_cases = collections.Counter()
    for (kind, detail), models_ in by_key.items():
        tried = 0
        if hasattr(check, "rank"): models_.sort(key=check.rank)
        budget, settled = 3, False
        for model in models_[:12]:
            if budget <= 0: break
            case = check.case(kind, detail, model)
            if case is None: continue
            n_cases += 1
            ok, role, text = check.confirm(runner, case)
            if ok is None:                 # the candidate lies outside the claim (e.g. no input text yields these tokens)
                outside_cases[role] += 1
                continue
            tried += 1
            budget -= 1
            if ok:
                settled = True
                if (pid, role) in known_roles:
                    # a listed finding must not hide a different violation with the same obligation label: look at further models
                    known_hit[role] = (text, case)
                    budget += 1
                    continue
                if role not in confirmed: confirmed[role] = (text, case)
                break
        if tried and not settled: unconfirmed.append((kind, detail, models_[0]))
    # ---- translator validation on sampled paths
    validated, disagreements = 0, []
    k_val = {"quick": 12, "thorough": 64}[tier]
    rnd2 = random.Random(seed + 1)
    pick = samples if len(samples) <= k_val else rnd2.sample(samples, k_val)
    for s in pick:
        try:
            d = check.validate(runner, s)
        except Exception as e:
            d = f"validate raised {type(e).__name__}: {e}"
        if d is None: validated += 1
        elif d == "skip": pass
        else: disagreements.append((d, s))
    canary = None
    try:
        canary = check.canary(runner, tier)
    except Exception as e:
        canary = f"canary raised {type(e).__name__}: {e}"
    runner.close()

    # ---- verdict
    rc = 0
    lines = []
    for role, (text, case) in known_hit.items():
        lines.append(f"KNOWN-FINDING: property={pid} {known_roles[(pid, role)].get('what', role)} [{role}]")
    if confirmed:
        os.makedirs(replay_dir, exist_ok=True)
        for i, (role, (text, case)) in enumerate(confirmed.items()):
            p = os.path.join(replay_dir, f"{pid}-{i}.json")
            json.dump({"property": pid, "role": role, "what": text, "case": case}, open(p, "w"), indent=1, default=str)
            lines.append(f"VIOLATION property={pid} replay={p}")
            lines.append(f"  role={role} {text}")
        rc = 1
    inconclusive = []
    if unsupported and not check.tolerate_unsupported:
        inconclusive.append(f"{sum(unsupported.values())} paths ended in an unsupported construct")
    if stats["unknown"]: inconclusive.append(f"{stats['unknown']} solver queries returned unknown")
    partial = bool(truncated and partial_budget_s and not hung)
    if partial:
        say(f"[{pid}] the {tier} bounds were explored partially ({stats['paths']} paths in {explore_s:.0f}s, budget {partial_budget_s:.0f}s); no claim beyond the explored paths")
    elif truncated: inconclusive.append(f"exploration truncated at {stats['paths']} paths (bound {max_paths}, wall cap {wall_cap:.0f}s{', watchdog fired' if hung else ''})")
    if unconfirmed: inconclusive.append(f"{len(unconfirmed)} candidate counterexamples did not reproduce natively")
    if disagreements: inconclusive.append(f"{len(disagreements)} translator-validation disagreements")
    if isinstance(canary, str): inconclusive.append("vacuity canary: " + canary)
    if counters["obligations"] == 0 and not getattr(check, "no_obligations_ok", False): inconclusive.append("no property obligation was reached (vacuous)")
    if rc == 0 and inconclusive: rc = 2
    for l in lines: say(l)
    if inconclusive:
        say(f"INCONCLUSIVE property={pid}: " + "; ".join(inconclusive))
        for why, n in unsupported.most_common(8): say(f"  unsupported x{n}: {why}")
        for kind, detail, model in unconfirmed[:5]: say(f"  unconfirmed: {kind} {detail} model={model}")
        for d, s in disagreements[:5]: say(f"  disagreement: {d}  sample={json.dumps(s, default=str)[:600]}")
    wall = time.time() - t_start
    cov = {
        "states": stats["paths"], "transitions": stats["transitions"], "traces_validated_against_impl": validated,
        "samples": [json.loads(json.dumps(s, default=str)) for s in samples[:5]] or [{"note": "no completed path"}],
        "obligations": counters["obligations"], "discharged": counters["discharged"],
        "other_counters": {k: v for k, v in sorted(counters.items()) if k not in ("obligations", "discharged")},
        "functions_encoded": sorted(fns), "functions_encoded_count": len(fns), "entry_points": check.functions,
        "models_used": sorted(models), "bounds": check.bounds(tier), "outside_claim": check.outside,
        "path_outcomes": dict(outcomes), "solver_queries": stats["queries"], "solver_time_s": round(solver_s, 2), "solver_unknown": stats["unknown"],
        "interpreter_steps": stats["steps"], "mir_sha256": world.mir_sha, "mir_dump_s": round(world.dump_s, 1),
        "candidate_counterexamples": len(by_key), "native_replays": n_cases, "confirmed_roles": sorted(confirmed), "known_finding_roles": sorted(known_hit),
        "unconfirmed": len(unconfirmed), "candidates_outside_claim": dict(outside_cases), "translator_disagreements": len(disagreements), "unsupported_paths": sum(unsupported.values()),
        "unsupported_reasons": [w for w, _ in unsupported.most_common(5)], "truncated": truncated, "exhaustive": not truncated and not unsupported,
        "vacuity_canary": canary if canary is not None else "n/a", "workers": workers, "explore_s": round(explore_s, 1),
        "verdict": ("held on every explored path; the bounds of this level were NOT exhausted (time budget)" if (partial and rc == 0) else
                    {0: "holds within the bounds", 1: "violation", 2: "inconclusive"}[rc]),
        "partial_level": partial,
        "explanation": "bounded symbolic execution of the crate's MIR (regenerated from the current tree); every path closed by z3; counterexamples replayed natively",
    }
    if extra_cov: cov.update(extra_cov)
    write_evidence(ev_path, pid, tier, seed, cov, check.assumptions, wall, len(confirmed))
    say(f"[{pid}] {cov['verdict']} (exit {rc}) wall {wall:.1f}s")
    return rc


def write_evidence(path, pid, tier, seed, cov, assumptions, wall, violations):
    ev = {"property_id": pid, "tier": tier, "seed": seed, "level": "model_checking", "coverage": cov,
          "assumptions": list(assumptions), "wall_s": round(wall, 2), "violations": violations}
    if not (cov.get("states", 0) >= 1 and cov.get("transitions", 0) >= 1 and cov.get("samples")):
        # schema fallback for degenerate runs
        cov.setdefault("evaluations", max(1, cov.get("states", 0)))
        cov.setdefault("distinct_nontrivial", 0)
    tmp = path + ".tmp"
    json.dump(ev, open(tmp, "w"), indent=1, default=str)
    os.replace(tmp, path)
