"""Scan the crate's source for struct / enum items: variant order, field order, field types.

MIR prints aggregates by field *name* and projections by field *index*; Debug output of the native crate prints
names too.  Both are tied together by declaration order, which only the source gives.
"""
import os, re
from mirparse import split_top, match_close

EXTERNAL_ENUMS = {
    "Option": ["None", "Some"], "Result": ["Ok", "Err"], "Err": ["Incomplete", "Error", "Failure"],
    "Ordering": ["Less", "Equal", "Greater"], "ControlFlow": ["Continue", "Break"],
    "Either": ["Left", "Right"], "Entry": ["Occupied", "Vacant"], "Cow": ["Borrowed", "Owned"],
    "Direction": ["Outgoing", "Incoming"], "Bound": ["Included", "Excluded", "Unbounded"],
}


class TypeDefs:
    def __init__(self, srcroot):
        self.enums = dict(EXTERNAL_ENUMS)       # enum name -> [variant names]
        self.structs = {}                        # struct name -> [field names] (tuple structs: ["0","1",..])
        self.struct_types = {}                   # struct name -> [field types]
        self.struct_kind = {}                    # struct name -> "named" | "tuple" | "unit"
        self.variants = {}                       # (enum, variant) -> ("unit"|"tuple"|"named", [field names], [types])
        self.variant_owner = {}                  # variant name -> [enum names]
        self.aliases = {}
        self.files = {}
        for dp, _, fs in os.walk(srcroot):
            for fn in sorted(fs):
                if fn.endswith(".rs") and "quilpy" not in fn:
                    self._scan(open(os.path.join(dp, fn)).read())
        for (en, vn) in self.variants:
            self.variant_owner.setdefault(vn, []).append(en)

    @staticmethod
    def _strip(text):
        text = re.sub(r"//[^\n]*", "", text)
        text = re.sub(r"/\*.*?\*/", "", text, flags=re.S)
        return text

    @staticmethod
    def _strip_attrs(body):
        out, i, n = [], 0, len(body)
        while i < n:
            if body[i] == "#" and i + 1 < n and body[i + 1] == "[":
                j = match_close(body, i + 1)
                i = j + 1
                continue
            out.append(body[i]); i += 1
        return "".join(out)

    def _fields(self, body, named):
        names, types = [], []
        for k, it in enumerate(split_top(body)):
            it = it.strip()
            if not it: continue
            it = re.sub(r"^pub(?:\([^)]*\))?\s+", "", it)
            if named:
                mm = re.match(r"(?:r#)?(\w+)\s*:\s*(.*)$", it, re.S)
                if mm:
                    names.append(mm.group(1)); types.append(" ".join(mm.group(2).split()))
            else:
                names.append(str(k)); types.append(" ".join(it.split()))
        return names, types

    def _scan(self, text):
        text = self._strip(text)
        for m in re.finditer(r"\btype\s+(\w+)\s*(?:<[^=]*>)?\s*=\s*([^;]+);", text):
            self.aliases.setdefault(m.group(1), " ".join(m.group(2).split()))
        for m in re.finditer(r"\b(enum|struct)\s+(\w+)\s*(<[^{;(]*>)?\s*(where[^{;(]*)?([{;(])", text):
            kind, name, opener = m.group(1), m.group(2), m.group(5)
            if kind == "struct":
                if name in self.structs: continue
                if opener == ";":
                    self.structs[name], self.struct_types[name], self.struct_kind[name] = [], [], "unit"
                    continue
                i = m.end() - 1; j = match_close(text, i)
                body = self._strip_attrs(text[i + 1:j])
                names, types = self._fields(body, opener == "{")
                self.structs[name], self.struct_types[name] = names, types
                self.struct_kind[name] = "named" if opener == "{" else "tuple"
            else:
                if name in self.enums and name not in EXTERNAL_ENUMS: continue
                if opener != "{": continue
                i = m.end() - 1; j = match_close(text, i)
                body = self._strip_attrs(text[i + 1:j])
                vnames = []
                for it in split_top(body):
                    it = it.strip()
                    if not it: continue
                    mm = re.match(r"(?:r#)?(\w+)\s*(.*)$", it, re.S)
                    if not mm: continue
                    vn, rest = mm.group(1), mm.group(2).strip()
                    vnames.append(vn)
                    if rest.startswith("("):
                        k = match_close(rest, 0)
                        ns, ts = self._fields(rest[1:k], False)
                        self.variants[(name, vn)] = ("tuple", ns, ts)
                    elif rest.startswith("{"):
                        k = match_close(rest, 0)
                        ns, ts = self._fields(rest[1:k], True)
                        self.variants[(name, vn)] = ("named", ns, ts)
                    else:
                        self.variants[(name, vn)] = ("unit", [], [])
                self.enums[name] = vnames

    def variant_index(self, enum, variant):
        return self.enums[enum].index(variant)
