"""mirsym: symbolic interpreter over parsed MIR (`-Zunpretty=mir -Zverbose-internals`).

One `Machine` executes ONE path.  A path is identified by its list of branch decisions; the explorer re-executes the
driver from the root for every path (drivers are deterministic), taking recorded decisions without solver calls and
asking z3 only at new decision points.
"""
import os, re, struct, z3
from mirparse import *
from values import *

INT_BITS = {"u8": 8, "u16": 16, "u32": 32, "u64": 64, "usize": 64, "u128": 128,
            "i8": 8, "i16": 16, "i32": 32, "i64": 64, "isize": 64, "i128": 128, "bool": 1, "char": 32}
PANIC_FNS = {"panic_fmt", "panic", "panic_display", "unreachable_display", "panic_explicit", "begin_panic",
             "expect_failed", "unwrap_failed", "panic_nounwind", "panic_const_add_overflow", "panic_bounds_check",
             "panic_str", "assert_failed", "panic_cold_explicit", "panic_cold_display", "handle_alloc_error",
             "slice_index_fail", "slice_start_index_len_fail", "slice_end_index_len_fail", "slice_index_order_fail",
             "capacity_overflow", "panic_already_borrowed", "panic_already_mutably_borrowed", "unimplemented",
             "todo", "unreachable"}


TRANSPARENT = ("std::mem::ManuallyDrop<", "std::mem::MaybeDangling<", "std::mem::MaybeUninit<", "std::ptr::Unique<", "std::ptr::NonNull<",
               "std::cell::UnsafeCell<", "core::mem::ManuallyDrop<", "core::mem::MaybeUninit<")


def f64_from_bits(b):
    return struct.unpack("<d", struct.pack("<Q", b))[0]


def f64_bits(x):
    return struct.unpack("<Q", struct.pack("<d", x))[0]


class Frame:
    __slots__ = ("fn", "locals", "subst")

    def __init__(self, fn):
        self.fn, self.locals, self.subst = fn, {}, None


class Machine:
    MAX_DEPTH = 120
    MAX_STEPS = 4_000_000

    def __init__(self, world, decisions=None, timeout_ms=5000):
        self.world = world
        self.mod, self.td, self.srcroot = world.mod, world.td, world.srcroot
        self.models, self.generic_models = world.models, world.generic_models
        self.solver = z3.Solver()
        self.solver.set("rlimit", timeout_ms * 20000)
        self.solver.set("timeout", timeout_ms)           # wall-clock guard: some theory combinations ignore rlimit for a long time
        self.decisions = list(decisions or [])
        self.dpos = 0
        self.pending = []
        self.steps = self.queries = 0
        self.solver_time = 0.0
        self.depth = 0
        self.max_depth = self.MAX_DEPTH
        self.findings = []         # (kind, detail, model dict)
        self.unknowns = 0
        self.fns_used, self.models_used = set(), set()
        self.vars = {}             # name -> z3 const (symbolic inputs registered by the driver)
        self.cur = None
        self.uid = 0
        self.hash_orders = {}      # uid -> permutation policy
        self.trace_calls = None
        self.concrete_model = None
        self.ctx = {}

    # ------------------------------------------------------------ symbolic inputs
    def fresh_int(self, name, lo, hi):
        """z3 Int in [lo, hi)"""
        c = self.world.zcache.get(("int", name, lo, hi))
        if c is None:
            v = z3.Int(name)
            c = self.world.zcache[("int", name, lo, hi)] = (v, z3.And(v >= lo, v < hi))
        self.vars[name] = c[0]
        self.solver.add(c[1])
        return c[0]

    def zcached(self, key, mk):
        """z3 expressions are context-global: cache driver-built constraints across paths"""
        c = self.world.zcache.get(key)
        if c is None:
            c = self.world.zcache[key] = mk()
        return c

    def fresh_bv(self, name, bits=64):
        v = z3.BitVec(name, bits)
        self.vars[name] = v
        return v

    def fresh_bool(self, name):
        v = z3.Bool(name)
        self.vars[name] = v
        return v

    def fresh_fp(self, name):
        v = z3.FP(name, z3.Float64())
        self.vars[name] = v
        return v

    def assume(self, cond):
        if is_sym(cond):
            self.solver.add(cond)
        elif not cond:
            raise PathEnd("assumption false")

    def want_sample(self):
        """deterministic 1-in-`sample_rate` selection of paths for translator validation / evidence samples"""
        import zlib
        rate = getattr(self, "sample_rate", 8)
        return zlib.crc32(repr(self.decisions).encode()) % rate == getattr(self, "seed", 0) % rate

    def new_uid(self):
        self.uid += 1
        return self.uid

    # ------------------------------------------------------------ solver helpers
    def _check(self, *extra):
        import time
        t0 = time.time()
        self.queries += 1
        r = self.solver.check(*extra)
        if r == z3.unknown:
            # a loaded machine can push a harmless query over the 5 s guard: one retry with a six-fold budget before giving up
            self.solver.set("rlimit", 0); self.solver.set("timeout", 30000)
            r = self.solver.check(*extra)
            self.solver.set("rlimit", 5000 * 20000); self.solver.set("timeout", 5000)
        self.solver_time += time.time() - t0
        if r == z3.unknown:
            self.unknowns += 1
        return r

    def model_dict(self, mdl):
        out = {}
        for name, v in self.vars.items():
            val = mdl.eval(v, model_completion=True)
            if z3.is_int_value(val) or z3.is_bv_value(val):
                out[name] = val.as_long()
            elif z3.is_true(val):
                out[name] = True
            elif z3.is_false(val):
                out[name] = False
            elif z3.is_fp(val):
                out[name] = ("f64", fp_to_bits(mdl, val))
            else:
                out[name] = str(val)
        return out

    def feasible(self, cond):
        if not is_sym(cond):
            return bool(cond)
        self.solver.push(); self.solver.add(cond)
        r = self._check()
        self.solver.pop()
        return r != z3.unsat

    def must(self, cond):
        """True iff cond holds on every model of the current path condition"""
        if not is_sym(cond):
            return bool(cond)
        return not self.feasible(z3.Not(cond))

    # ------------------------------------------------------------ branching
    def choose(self, options):
        """options: [(label, cond|None)] mutually exclusive & exhaustive. Returns the label taken on this path."""
        if self.dpos < len(self.decisions):
            lab = self.decisions[self.dpos]
            self.dpos += 1
            for l, c in options:
                if l == lab:
                    if c is not None: self.solver.add(c)
                    return lab
            raise Unsupported(f"replayed decision {lab!r} not among options {[l for l, _ in options]}")
        feas = []
        for lab, cond in options:
            if cond is None:
                feas.append((lab, None)); continue
            self.solver.push(); self.solver.add(cond)
            r = self._check()
            self.solver.pop()
            if r != z3.unsat:
                feas.append((lab, cond))
        if not feas:
            raise PathEnd("infeasible")
        lab = feas[0][0]
        for other, _ in feas[1:]:
            self.pending.append(self.decisions[:self.dpos] + [other])
        self.decisions.append(lab)
        self.dpos += 1
        if feas[0][1] is not None: self.solver.add(feas[0][1])
        return lab

    def branch_bool(self, cond):
        if not is_sym(cond):
            return bool(cond)
        cond = z3.simplify(cond)
        if z3.is_true(cond): return True
        if z3.is_false(cond): return False
        return self.choose([(True, cond), (False, z3.Not(cond))])

    def concretize_int(self, v, candidates=None):
        """fork over the feasible values of a symbolic integer (small domains only)"""
        if not is_sym(v):
            return v
        v = z3.simplify(v)
        if z3.is_int_value(v) or z3.is_bv_value(v):
            return v.as_long()
        if candidates is None:
            raise Unsupported("concretize_int without candidates")
        return self.choose([(c, v == c) for c in candidates])

    def force_tag(self, a):
        """make a symbolic-tag enum concrete on this path (forking over feasible variants)"""
        if not isinstance(a, Agg) or a.tag is not None or a.symtag is None:
            return a
        en = self.td.enums[a.ty]
        names = list(a.alts.keys()) if a.alts else en
        st = a.symtag
        opts = self.zcached(("force", st.get_id(), tuple(names)), lambda: (st, [(n, st == en.index(n)) for n in names]))[1]
        lab = self.choose(opts)
        a.tag = en.index(lab)
        a.fields = a.alts[lab] if a.alts else []
        a.alts = None
        return a

    def str_concrete(self, s):
        """python str of a Str value, forking over the alphabet when symbolic"""
        s = deref(s)
        if isinstance(s, str): return s
        if s.s is not None: return s.s
        i = self.choose([(k, s.sym == k) for k in range(len(s.alpha))])
        return s.alpha[i]

    # ------------------------------------------------------------ findings
    def finding(self, kind, detail, bad_cond=None):
        """record a candidate violation if `bad_cond` is satisfiable on this path (None = unconditional)"""
        self.solver.push()
        if bad_cond is not None: self.solver.add(bad_cond)
        r = self._check()
        if r == z3.sat:
            md = self.model_dict(self.solver.model())
            md["_ctx"] = dict(self.ctx)            # driver-level path context (sizes, operation choices)
            self.findings.append((kind, detail, md))
        self.solver.pop()
        return r == z3.sat

    def require(self, kind, detail, good):
        """property assertion: `good` must hold for all values on this path. Returns True when it does."""
        self.world.count("obligations")
        if not is_sym(good):
            if not good:
                self.finding(kind, detail)
                return False
            self.world.count("discharged")
            return True
        bad = self.finding(kind, detail, z3.Not(good))
        if not bad: self.world.count("discharged")
        return not bad

    # ------------------------------------------------------------ places
    def place_ref(self, fr, toks):
        cont, key = fr.locals, toks[0][1]
        if key not in cont:
            # zero-sized locals (capture-less closures, fn items, unit structs) are never assigned in MIR
            ty = fr.fn.locals.get(key)
            if ty is not None and len(toks) == 1 and (ty.startswith("{") or ty.endswith("}") or ty == "()"):
                cont[key] = self.zst(ty)
        variant = None
        wrapper = False       # the place reached so far has a transparent wrapper type (MaybeUninit, ManuallyDrop, ...)
        for t in toks[1:]:
            cur = cont[key]
            k = t[0]
            if k == "field":
                was = wrapper
                wrapper = t[2].startswith(TRANSPARENT)
                if was or (wrapper and not isinstance(cur, Agg)):
                    continue                      # projection through / into a transparent wrapper: same storage
            else:
                wrapper = False
            if k == "deref":
                if isinstance(cur, Ref): cont, key = cur.cont, cur.key
                elif isinstance(cur, BoxObj): cont, key = cur.fields, 0
                elif isinstance(cur, Agg) and cur.ty in ("ArcIntern", "Arc", "Rc"): cont, key = cur.fields, 0
                elif isinstance(cur, (Slice, VecObj, Str)): pass    # fat pointers are their own referent
                else: raise Unsupported(f"deref of {cur!r}")
            elif k == "downcast":
                variant = t[1]
                continue
            elif k == "field":
                if isinstance(cur, Ref): cur = cur.get()
                if isinstance(cur, Agg) and cur.tag is None and cur.alts is not None and variant is not None:
                    cont, key = cur.alts[variant], t[1]
                elif isinstance(cur, Agg):
                    if cur.fields is None: raise Unsupported(f"field of symbolic enum without downcast {cur!r}")
                    cont, key = cur.fields, t[1]
                elif isinstance(cur, BoxObj) and t[1] == 0:
                    cont, key = [cur], 0          # Box.0 (Unique) -> treat as the box itself
                else:
                    raise Unsupported(f"field {t[1]} of {cur!r}")
            elif k == "index":
                ix = t[1]
                idx = fr.locals[ix] if ix.startswith("_") else int(ix.split()[0])
                if is_sym(idx): raise Unsupported("symbolic index")
                if isinstance(cur, Ref): cur = cur.get()
                if isinstance(cur, Slice): cont, key = cur.vec.items, cur.lo + idx
                elif isinstance(cur, VecObj): cont, key = cur.items, idx
                else: cont, key = cur.fields, idx
            elif k == "constindex":
                off, frm_end = t[1], t[2]
                if isinstance(cur, Ref): cur = cur.get()
                if isinstance(cur, Slice):
                    cont, key = cur.vec.items, (cur.hi - off if frm_end else cur.lo + off)
                elif isinstance(cur, VecObj):
                    cont, key = cur.items, (len(cur.items) - off if frm_end else off)
                else: cont, key = cur.fields, off
            elif k == "subslice":
                raise Unsupported("subslice projection")
            variant = None
        return Ref(cont, key)

    def operand(self, fr, op):
        k = op[0]
        if k == "copy":
            return copy_val(self.place_ref(fr, op[1]).get())
        if k == "move":
            return self.place_ref(fr, op[1]).get()
        return self.const(op[1], fr)

    def const(self, c, fr=None):
        k = c[0]
        if k == "scalar":
            ty = c[2]
            if ty == "bool": return bool(c[1])
            if ty == "f64": return f64_from_bits(c[1])
            if ty == "f32": return struct.unpack("<f", struct.pack("<I", c[1]))[0]
            if ty == "char": return c[1]
            if ty in INT_BITS: return c[1]
            # a scalar of enum / newtype type (field-less enum constant)
            b = base_name(ty)
            if b in self.td.enums: return Agg(b, c[1], [])
            return c[1]
        if k == "slice":
            b = self.mod.allocs[c[1]][:c[2]]
            if c[3].endswith("str"):
                return Str(b.decode("utf8", "replace"))
            return VecObj(list(b))
        if k == "zst":
            return self.zst(subst_text(c[1], fr.subst) if fr is not None and fr.subst else c[1])
        if k == "strlit":
            return Str(c[1])
        if k == "allocref":
            b = self.mod.allocs.get(c[1])
            if b is None: raise Unsupported("allocation not dumped: " + c[1])
            if "[u8;" in c[2] or c[2].endswith("[u8]"): return VecObj(list(b))
            if c[2].endswith("str"): return Str(b.decode("utf8", "replace"))
            raise Unsupported(f"constant allocation of type {c[2]}")
        if k == "named":
            return self.eval_named_const(c[1], fr)
        raise Unsupported(f"const {c}")

    def zst(self, ty):
        """build the unique value of a zero-sized type from its printed type (cached: the values are stateless)"""
        c = self.world.zst_cache.get(ty)
        if c is None:
            c = self.world.zst_cache[ty] = self._zst(ty)
        return copy_val(c) if isinstance(c, Agg) else c

    def _zst(self, ty):
        ty = ty.strip()
        if ty == "()": return UNIT
        if ty.startswith("(") and match_close(ty, 0) == len(ty) - 1:
            return TUP(*[self.zst(t) for t in split_top(ty[1:-1])])
        if ty.startswith("{") and match_close(ty, 0) == len(ty) - 1:
            inner = ty[1:-1]
            k0 = top_find(inner, " closure_kind_ty")
            head = inner[:k0]
            up = inner[inner.rindex("upvar_tys=") + 10:]
            ups = [self.zst(t) for t in split_top(up[1:match_close(up, 0)])]
            n = self.resolve_item(head)
            if n:
                return Closure(n, ups)
            m = re.match(r"^([\w:]+)<(.*)>::\{closure#(\d+)\}$", head)
            if m:
                name, gens = m.group(1), split_top(m.group(2))
                return self.lib_closure(name, gens, int(m.group(3)))
            raise Unsupported("zst closure " + head[:120])
        if ty.endswith("}"):                      # fn item: `... fn(..) -> .. {path}`
            i = match_open_back(ty, len(ty) - 1)
            return FnItem(ty[i + 1:-1], ty[:i])
        b = base_name(ty)
        if b in self.td.enums and self.td.enums[b]:
            return Agg(b, 0, [])
        return Agg(b, None, [])

    def lib_closure(self, name, gens, n):
        tbl = self.world.lib_closures
        key = name if name in tbl else name.split("::")[-1]
        if key not in tbl: raise Unsupported("library closure " + name)
        model, pos = tbl[key]
        self.models_used.add(model)
        return self.models[model](self, *[self.zst(gens[i]) for i in pos])

    def eval_named_const(self, name, fr=None):
        if name.startswith(("core::", "std::")):
            import lib_core
            v = lib_core.num_const(name)
            if v is not None: return v
            fc = {"core::f64::consts::PI": 3.141592653589793, "std::f64::consts::PI": 3.141592653589793, "core::f64::EPSILON": 2.220446049250313e-16,
                  "std::f64::EPSILON": 2.220446049250313e-16, "core::f64::INFINITY": float("inf"), "core::f64::NAN": float("nan"),
                  "core::f64::consts::FRAC_1_SQRT_2": 0.7071067811865476, "core::f64::consts::E": 2.718281828459045, "core::f64::MAX": 1.7976931348623157e308,
                  "core::f64::consts::FRAC_PI_2": 1.5707963267948966, "core::f64::consts::TAU": 6.283185307179586}.get(name.strip().replace("<impl f64>::", ""))
            if fc is not None: return fc
        n = self.resolve_item(name)
        if not n: raise Unsupported("named const " + name[:200])
        key = ("const", n)
        if key in self.world.const_cache:
            return deep_clone(self.world.const_cache[key])
        f = self.mod.get(n)
        if isinstance(f.ret_ty, tuple) and f.ret_ty[0] == "oneline":
            try:
                v = self.operand(None, parse_operand(f.ret_ty[1]))
            except KeyError:          # allocation of a body-less const is not dumped: read the literal from the source
                short = n.split("::")[-1]
                v = self.world.source_const(short)
                if v is None: raise Unsupported("const literal " + n)
            if isinstance(v, (Str, int, float, bool)): self.world.const_cache[key] = v
            return v
        v = self.run_fn(f, [])
        return v

    # ------------------------------------------------------------ rvalues
    def rvalue(self, fr, rv, lhs_ty):
        k = rv[0]
        if k == "use": return self.operand(fr, rv[1])
        if k == "ref":
            toks = rv[1]
            r = self.place_ref(fr, toks)
            # `&(*_x)` reborrow of a fat pointer keeps the fat pointer
            v = None
            try: v = r.get()
            except Exception: pass
            if isinstance(v, (Slice,)) and toks[-1][0] == "deref": return v
            if isinstance(v, Ref) and False: return v
            return r
        if k == "discriminant":
            v = self.place_ref(fr, rv[1]).get()
            if isinstance(v, Ref): v = v.get()
            if not isinstance(v, Agg): raise Unsupported(f"discriminant of {v!r}")
            if v.tag is None and v.symtag is not None: return v.symtag
            if v.tag is None: return 0
            return v.tag
        if k == "binop":
            a, b = self.operand(fr, rv[2]), self.operand(fr, rv[3])
            return self.binop(rv[1], a, b, self.operand_ty(fr, rv[2]))
        if k == "unop":
            a = self.operand(fr, rv[2])
            ty = self.operand_ty(fr, rv[2])
            if rv[1] == "Not":
                if isinstance(a, bool): return not a
                if is_sym(a): return z3.Not(a) if z3.is_bool(a) else ~a
                bits = INT_BITS.get(ty, 64)
                return (~a) & ((1 << bits) - 1)
            if rv[1] == "Neg":
                if isinstance(a, float): return -a
                if is_sym(a): return z3.fpNeg(a) if z3.is_fp(a) else -a
                bits = INT_BITS.get(ty, 64)
                return (-a) & ((1 << bits) - 1)
            if rv[1] == "PtrMetadata":
                a = deref(a) if not isinstance(a, (Slice, VecObj, Str)) else a
                if isinstance(a, Slice): return len(a)
                if isinstance(a, VecObj): return len(a.items)
                if isinstance(a, Str) and a.s is not None: return len(a.s.encode())
                raise Unsupported(f"PtrMetadata of {a!r}")
            raise Unsupported("unop " + rv[1])
        if k == "cast":
            return self.cast(self.operand(fr, rv[1]), self.operand_ty(fr, rv[1]), rv[2], rv[3])
        if k == "tuple": return Agg("tuple", None, [self.operand(fr, o) for o in rv[1]])
        if k == "array": return VecObj([self.operand(fr, o) for o in rv[1]])
        if k == "repeat":
            v = self.operand(fr, rv[1])
            n = rv[2].strip()
            mm = re.search(r"0x([0-9a-f]+)", n)
            cnt = int(mm.group(1), 16) if mm else int(n.split()[0])
            return VecObj([copy_val(v) for _ in range(cnt)])
        if k == "closure":
            name = rv[1]
            if name.startswith("closure@") and lhs_ty:
                t = lhs_ty.strip()
                inner = t[1:match_close(t, 0)]
                name = inner[:top_find(inner, " closure_kind_ty")]
            n = self.resolve_item(name)
            if not n: raise Unsupported("closure item " + name[:200])
            return Closure(n, [self.operand(fr, o) for _, o in rv[2]], fr.subst)
        if k == "struct":
            path = strip_generics(rv[1]).split("::")
            vals = {n: self.operand(fr, o) for n, o in rv[2]}
            nm = path[-1]
            if nm in ("RangeTo", "RangeFrom", "Range", "RangeInclusive", "RangeToInclusive"):
                return Agg(nm, None, list(vals.values()))
            if len(path) >= 2 and path[-2] in self.td.enums and nm in self.td.enums[path[-2]] and \
                    (path[-2], nm) in self.td.variants:
                en = path[-2]
                order = self.td.variants[(en, nm)][1]
                return Agg(en, self.td.enums[en].index(nm), [vals.get(f) for f in order] if set(vals) <= set(order) else list(vals.values()))
            if nm in self.td.structs and set(vals) <= set(self.td.structs[nm]):
                return Agg(nm, None, [vals.get(f) for f in self.td.structs[nm]])
            if nm in self.world.ext_structs:
                return Agg(nm, None, [vals.get(f) for f in self.world.ext_structs[nm]])
            raise Unsupported(f"struct aggregate {rv[1]} fields={list(vals)}")
        if k == "variant":
            path = strip_generics(rv[1]).split("::")
            nm = path[-1]
            en = path[-2] if len(path) > 1 else None
            args = [self.operand(fr, o) for o in rv[2]]
            if en in self.td.enums and nm in self.td.enums[en]:
                return Agg(en, self.td.enums[en].index(nm), args)
            if en is None and nm in self.td.variant_owner and nm not in self.td.structs and len(self.td.variant_owner[nm]) == 1:
                en = self.td.variant_owner[nm][0]
                return Agg(en, self.td.enums[en].index(nm), args)
            return Agg(nm, None, args)            # tuple struct / unit struct
        if k == "len":
            v = deref(self.place_ref(fr, rv[1]).get())
            return len(v) if isinstance(v, Slice) else len(v.items)
        raise Unsupported(f"rvalue {rv}")

    def operand_ty(self, fr, op):
        if op[0] in ("copy", "move"):
            if len(op[1]) == 1: return fr.fn.locals.get(op[1][0][1])
            return self.world.place_ty(fr.fn, op[1])
        if op[0] == "const" and op[1][0] == "scalar": return op[1][2]
        return None

    def cast(self, v, from_ty, to_ty, kind):
        if kind == "IntToInt":
            fb, tb = INT_BITS.get(from_ty), INT_BITS.get(to_ty, 64)
            if isinstance(v, Agg):            # field-less enum -> integer
                if v.tag is None and v.symtag is not None: raise Unsupported("cast of symbolic enum tag")
                return v.tag or 0
            if fb is None: fb = 64
            if isinstance(v, bool): v = int(v)
            if is_sym(v):
                if z3.is_bool(v): v = z3.If(v, z3.BitVecVal(1, tb), z3.BitVecVal(0, tb)); return v
                if z3.is_int(v): raise Unsupported("IntToInt on z3 Int")
                fb = v.size()
                if tb == fb: return v
                if tb < fb: return z3.Extract(tb - 1, 0, v)
                return z3.SignExt(tb - fb, v) if from_ty and from_ty.startswith("i") else z3.ZeroExt(tb - fb, v)
            if from_ty and from_ty.startswith("i") and v >> (fb - 1): v -= 1 << fb
            return v & ((1 << tb) - 1)
        if kind == "IntToFloat":
            signed = bool(from_ty) and from_ty.startswith("i")
            if is_sym(v):
                return z3.fpSignedToFP(z3.RNE(), v, z3.Float64()) if signed else z3.fpUnsignedToFP(z3.RNE(), v, z3.Float64())
            fb = INT_BITS.get(from_ty, 64)
            if signed and v >> (fb - 1): v -= 1 << fb
            return float(v)
        if kind == "FloatToInt":
            if is_sym(v): raise Unsupported("symbolic FloatToInt")
            tb = INT_BITS.get(to_ty, 64)
            signed = to_ty.startswith("i")
            lo, hi = (-(1 << (tb - 1)), (1 << (tb - 1)) - 1) if signed else (0, (1 << tb) - 1)
            if v != v: return 0
            r = lo if v <= lo else hi if v >= hi else int(v)
            return r & ((1 << tb) - 1)
        if kind == "FloatToFloat": return v
        if kind == "PointerExposeProvenance":
            return self.address_of(v)
        if kind in ("PointerCoercion", "Transmute", "PtrToPtr", "PointerWithExposedProvenance", "Subtype"):
            return v
        raise Unsupported(f"cast {kind} {from_ty}->{to_ty}")

    def address_of(self, v):
        """pointer -> usize: a distinct, deterministic integer per storage slot (first-seen numbering; only equality and
        a fixed arbitrary order are meaningful, as for real addresses)"""
        while isinstance(v, Ref) and isinstance(v.cont[v.key] if self._has(v) else None, Ref): v = v.get()
        if not hasattr(self, "_addrs"): self._addrs, self._addr_keep = {}, []
        if isinstance(v, Ref): key = (id(v.cont), v.key if isinstance(v.key, (int, str)) else id(v.key)); keep = v.cont
        else: key = (id(v), 0); keep = v
        a = self._addrs.get(key)
        if a is None:
            a = self._addrs[key] = 0x10000 + 64 * len(self._addrs)
            self._addr_keep.append(keep)
        return a

    def _has(self, r):
        try:
            r.cont[r.key]; return True
        except Exception:
            return False

    def binop(self, op, a, b, ty):
        if isinstance(a, Agg) and a.ty != "tuple" and op in ("Eq", "Ne"):      # field-less enum compare
            ta = a.symtag if a.tag is None else a.tag
            tb_ = b.symtag if isinstance(b, Agg) and b.tag is None else (b.tag if isinstance(b, Agg) else b)
            return (ta == tb_) if op == "Eq" else (ta != tb_)
        if ty in ("f64", "f32") or isinstance(a, float) or isinstance(b, float) or (is_sym(a) and z3.is_fp(a)) or (is_sym(b) and z3.is_fp(b)):
            return self.float_binop(op, a, b)
        bits = INT_BITS.get(ty, 64)
        signed = bool(ty) and ty.startswith("i")
        if is_sym(a) or is_sym(b):
            if (is_sym(a) and z3.is_bool(a)) or (is_sym(b) and z3.is_bool(b)):
                A = a if is_sym(a) else z3.BoolVal(bool(a))
                B = b if is_sym(b) else z3.BoolVal(bool(b))
                return {"Eq": A == B, "Ne": A != B, "BitAnd": z3.And(A, B), "BitOr": z3.Or(A, B), "BitXor": z3.Xor(A, B)}[op]
            if (is_sym(a) and z3.is_int(a)) or (is_sym(b) and z3.is_int(b)):      # discriminants / indices are z3 Ints
                return {"Eq": a == b, "Ne": a != b, "Lt": a < b, "Le": a <= b, "Gt": a > b, "Ge": a >= b}[op]
            if is_sym(a): bits = a.size()
            elif is_sym(b): bits = b.size()
            A = a if is_sym(a) else z3.BitVecVal(a, bits)
            B = b if is_sym(b) else z3.BitVecVal(b, bits)
            if op in ("Eq", "Ne"): return (A == B) if op == "Eq" else (A != B)
            if op in ("Lt", "Le", "Gt", "Ge"):
                f = {"Lt": (z3.ULT, lambda x, y: x < y), "Le": (z3.ULE, lambda x, y: x <= y),
                     "Gt": (z3.UGT, lambda x, y: x > y), "Ge": (z3.UGE, lambda x, y: x >= y)}[op]
                return f[1](A, B) if signed else f[0](A, B)
            if op in ("Mul", "MulUnchecked"): return A * B
            if op in ("Add", "AddUnchecked"): return A + B
            if op in ("Sub", "SubUnchecked"): return A - B
            if op == "BitAnd": return A & B
            if op == "BitOr": return A | B
            if op == "BitXor": return A ^ B
            if op in ("Shl", "ShlUnchecked"): return A << B
            if op in ("Shr", "ShrUnchecked"): return (A >> B) if signed else z3.LShR(A, B)
            if op == "Div": return (A / B) if signed else z3.UDiv(A, B)
            if op == "Rem": return z3.SRem(A, B) if signed else z3.URem(A, B)
            if op == "MulWithOverflow":
                ovf = z3.Not(z3.And(z3.BVMulNoOverflow(A, B, signed), z3.BVMulNoUnderflow(A, B))) if signed else z3.Not(z3.BVMulNoOverflow(A, B, False))
                return Agg("tuple", None, [A * B, ovf])
            if op == "AddWithOverflow":
                ovf = z3.Not(z3.And(z3.BVAddNoOverflow(A, B, True), z3.BVAddNoUnderflow(A, B))) if signed else z3.Not(z3.BVAddNoOverflow(A, B, False))
                return Agg("tuple", None, [A + B, ovf])
            if op == "SubWithOverflow":
                ovf = z3.Not(z3.And(z3.BVSubNoOverflow(A, B), z3.BVSubNoUnderflow(A, B, True))) if signed else z3.Not(z3.BVSubNoUnderflow(A, B, False))
                return Agg("tuple", None, [A - B, ovf])
            if op == "Cmp":
                lt = (A < B) if signed else z3.ULT(A, B)
                return Agg("Ordering", None, None, symtag=z3.If(lt, 0, z3.If(A == B, 1, 2)), alts={"Less": [], "Equal": [], "Greater": []})
            raise Unsupported("sym binop " + op)
        if isinstance(a, bool) or isinstance(b, bool):
            a, b = int(a), int(b)
            r = {"Eq": a == b, "Ne": a != b, "BitAnd": a & b, "BitOr": a | b, "BitXor": a ^ b,
                 "Lt": a < b, "Le": a <= b, "Gt": a > b, "Ge": a >= b}.get(op)
            if r is None: raise Unsupported("bool binop " + op)
            return bool(r)
        mask = (1 << bits) - 1

        def sg(x):
            return x - (1 << bits) if signed and x >> (bits - 1) else x
        if op in ("Eq", "Ne", "Lt", "Le", "Gt", "Ge"):
            x, y = sg(a), sg(b)
            return {"Eq": x == y, "Ne": x != y, "Lt": x < y, "Le": x <= y, "Gt": x > y, "Ge": x >= y}[op]
        if op == "Cmp":
            x, y = sg(a), sg(b)
            return Agg("Ordering", 0 if x < y else 1 if x == y else 2, [])
        if op in ("Add", "Sub", "Mul", "AddUnchecked", "SubUnchecked", "MulUnchecked"):
            return {"Add": sg(a) + sg(b), "Sub": sg(a) - sg(b), "Mul": sg(a) * sg(b)}[op[:3]] & mask
        if op.endswith("WithOverflow"):
            r = {"Add": sg(a) + sg(b), "Sub": sg(a) - sg(b), "Mul": sg(a) * sg(b)}[op[:3]]
            lo, hi = (-(1 << (bits - 1)), (1 << (bits - 1)) - 1) if signed else (0, mask)
            return Agg("tuple", None, [r & mask, not (lo <= r <= hi)])
        if op == "BitAnd": return a & b
        if op == "BitOr": return a | b
        if op == "BitXor": return a ^ b
        if op in ("Shl", "ShlUnchecked"): return (a << (b % bits)) & mask
        if op in ("Shr", "ShrUnchecked"): return (sg(a) >> (b % bits)) & mask
        if op == "Div":
            x, y = sg(a), sg(b)
            q = abs(x) // abs(y) * (1 if (x >= 0) == (y >= 0) else -1)
            return q & mask
        if op == "Rem":
            x, y = sg(a), sg(b)
            r = abs(x) % abs(y) * (1 if x >= 0 else -1)
            return r & mask
        if op == "Offset": return a + b
        raise Unsupported(f"binop {op}")

    def float_binop(self, op, a, b):
        if not is_sym(a) and not is_sym(b):
            a, b = float(a), float(b)
            if op == "Add": return a + b
            if op == "Sub": return a - b
            if op == "Mul": return a * b
            if op == "Div":
                if b == 0.0:
                    import math
                    if a != a or a == 0.0: return float("nan")
                    return math.copysign(float("inf"), a) * math.copysign(1.0, b)
                return a / b
            if op == "Rem":
                import math
                return math.fmod(a, b) if b != 0 else float("nan")
            return {"Eq": a == b, "Ne": a != b, "Lt": a < b, "Le": a <= b, "Gt": a > b, "Ge": a >= b}[op]
        A = a if is_sym(a) else z3.FPVal(a, z3.Float64())
        B = b if is_sym(b) else z3.FPVal(b, z3.Float64())
        rm = z3.RNE()
        if op == "Mul": return z3.fpMul(rm, A, B)
        if op == "Add": return z3.fpAdd(rm, A, B)
        if op == "Sub": return z3.fpSub(rm, A, B)
        if op == "Div": return z3.fpDiv(rm, A, B)
        if op == "Eq": return z3.fpEQ(A, B)
        if op == "Ne": return z3.Not(z3.fpEQ(A, B))
        if op == "Lt": return z3.fpLT(A, B)
        if op == "Le": return z3.fpLEQ(A, B)
        if op == "Gt": return z3.fpGT(A, B)
        if op == "Ge": return z3.fpGEQ(A, B)
        raise Unsupported("float binop " + op)

    # ------------------------------------------------------------ calls
    def callee_key(self, path):
        c = self.world.key_cache.get(path)
        if c is None:
            c = self.world.key_cache[path] = self._callee_key(path)
        return c

    def _callee_key(self, path):
        s = path.strip()
        if s.startswith("<"):
            i = find_as(s)
            if i >= 0:
                ty, rest = s[1:i], s[i + 4:]
                j = find_trait_end(rest)
                trait, meth = rest[:j], strip_generics(rest[j + 3:])
                return f"<{base_name(ty)} as {base_name(trait)}>::{meth}", ty, trait
            # `<Type>::method`
            j = match_angle(s, 0)
            ty = s[1:j]
            meth = strip_generics(s[j + 3:])
            return f"{base_name(ty)}::{meth}", ty, None
        if "<impl " in s:
            # inherent method printed as `module::<impl Type>::method` (only at the top level of the path)
            segs = split_top(s.replace("::", "\x00"), "\x00")
            for i, seg in enumerate(segs[:-1]):
                if seg.startswith("<impl ") and seg.endswith(">"):
                    ty = seg[6:-1].replace("\x00", "::")
                    if base_name(ty) in self.td.structs or base_name(ty) in self.td.enums:
                        return f"{base_name(ty)}::{strip_generics(segs[i + 1].replace(chr(0), '::'))}", ty, None
        return strip_generics(s), None, None

    def call_value(self, f, args):
        """call a callable *value* with a python list of args"""
        while isinstance(f, (Ref, BoxObj)):
            f = f.get() if isinstance(f, Ref) else f.fields[0]
        if isinstance(f, PyFn): return f.f(self, *args)
        if isinstance(f, Closure):
            fn = self.mod.get(f.name)
            env = Agg("closure", None, list(f.caps)) if not isinstance(f.caps, Agg) else f.caps
            if isinstance(f.caps, list): f.caps = env            # keep one environment object (FnMut state)
            if fn.locals["_1"].startswith("&"):
                cell = [env]
                return self.run_fn(fn, [Ref(cell, 0)] + list(args), f.subst)
            return self.run_fn(fn, [env] + list(args), f.subst)
        if isinstance(f, FnItem): return self.call_path(f.path, args)
        raise Unsupported(f"call_value {f!r}")

    def call_path(self, path, args, fr=None):
        key, ty, trait = self.callee_key(path)
        if fr is not None and fr.subst and ty is not None:
            t = ty.strip()
            if t in fr.subst:
                ty = fr.subst[t]
                key = f"<{base_name(ty)} as {base_name(trait)}>::{key.rsplit('::', 1)[-1]}" if trait else key
        mdl = self.models.get(key)
        if mdl is None and "::" in key and trait is None:
            parts = key.split("::")
            if len(parts) > 2: mdl = self.models.get("::".join(parts[-2:]))
        if mdl is not None:
            self.models_used.add(key)
            if getattr(mdl, "wants_path", False): return mdl(self, path, *args)
            return mdl(self, *args)
        meth = key.rsplit("::", 1)[-1]
        if trait is not None and ty is not None:
            # a hand-written impl in the crate wins over the generic library models
            tb, trb = base_name(ty), base_name(trait)
            c = self.world.impl_index().get((tb, trb, meth))
            # several impls of one trait for one type (`#[derive(PartialEq)]` and `impl PartialEq<u64> for T`): decide per chosen impl
            hand = c and (self.world.impl_derived.get(self.world.pick_impl(c, trait)) is False if len(c) > 1 else self.world.is_derived(tb, trb) is False)
            if c and hand:
                f0 = self.mod.get_for_self(self.world.pick_impl(c, trait), tb)
                sb = {"Self": tb}
                sb.update(self.world.call_subst(f0.name, ty))
                return self.run_fn(f0, args, sb)
        if trait is not None:
            gk = f"<_ as {base_name(trait)}>::{meth}"
            g = self.generic_models.get(gk)
            if g is not None:
                r = g(self, path, *args)
                if r is not NotImplemented:
                    self.models_used.add(gk)
                    return r
        # enum / struct constructor used as fn
        parts = key.split("::")
        if len(parts) >= 2 and parts[-2] in self.td.enums and parts[-1] in self.td.enums[parts[-2]]:
            return Agg(parts[-2], self.td.enums[parts[-2]].index(parts[-1]), list(args))
        if parts[-1] in self.td.structs and self.td.struct_kind.get(parts[-1]) == "tuple" and (len(parts) == 1 or parts[-2] not in self.td.structs):
            if self.mod.lookup(key) is None:
                return Agg(parts[-1], None, list(args))
        fn, subst = self.resolve(key, ty, trait, args, path)
        if fn is None:
            raise Unsupported(f"call {key}   <= {path[:200]}")
        # type parameters of a generic impl, bound from the printed Self type of this call
        sty = ty if ty is not None else self_type_of_path(path)
        gs = self.world.call_subst(fn.name, sty)
        if gs:
            subst = dict(subst or {}); subst.update(gs)
        # type parameters of the fn item itself, bound from the printed generic arguments of the call (`f::<A, B>`)
        fg = self.world.fn_generics(fn.name)
        if fg:
            p = path.strip()
            if p.endswith(">"):
                i, d = -1, 0
                for j in range(len(p) - 1, -1, -1):
                    ch = p[j]
                    if ch == ">" and (j == 0 or p[j - 1] not in "-="): d += 1
                    elif ch == "<":
                        d -= 1
                        if d == 0:
                            i = j; break
                if i >= 2 and p[i - 2:i] == "::":
                    targs = [a.strip() for a in split_top(p[i + 1:-1]) if not a.strip().startswith("'")]
                    bind = {f: a for f, a in zip(fg, targs) if a and a != f and not a.startswith("{") and not re.fullmatch(r"[A-Z]\w{0,2}", a)}
                    if bind:
                        subst = dict(subst or {}); subst.update(bind)
        return self.run_fn(fn, args, subst)

    def resolve_item(self, path):
        """map a printed item path (possibly `Type::method::{closure#0}` or `<T as Trait>::m::promoted[0]`) to an index name"""
        c = self.world.item_cache.get(path)
        if c is not None or path in self.world.item_cache: return c
        r = self._resolve_item(path)
        self.world.item_cache[path] = r
        return r

    def _resolve_item(self, path):
        n = self.mod.lookup(path)
        if n: return n
        p = path.strip()
        if not p.startswith("<") and "<" in p:
            n = self.mod.lookup(strip_generics(p))       # `f<generics>::{closure#0}` of a generic free function
            if n: return n
        idx = self.world.impl_index()
        if "<impl " in p and not p.startswith("<"):
            # `module::<impl Type<..>>::method<G>::{closure#0}` (how closure types name an inherent method's closure)
            segs = split_top(p.replace("::", "\x00"), "\x00")
            for i, seg in enumerate(segs[:-1]):
                if seg.startswith("<impl ") and seg.endswith(">"):
                    tyb = base_name(seg[6:-1].replace("\x00", "::"))
                    rest = "::".join(y for y in (strip_generics(x.replace("\x00", "::")) for x in segs[i + 1:]) if y)
                    c = idx.get((tyb, None, rest))
                    if c: return c[0]
        if p.startswith("<"):
            i = find_as(p)
            if i < 0: return None
            ty, rest = p[1:i], p[i + 4:]
            j = find_trait_end(rest)
            trait, meth = rest[:j], rest[j + 3:]
            c = idx.get((base_name(ty), base_name(trait), strip_generics(meth)))
            return self.world.pick_impl(c, trait) if c else None
        parts = strip_generics(p).split("::")
        for k in range(len(parts) - 1, 0, -1):
            c = idx.get((parts[k - 1], None, "::".join(parts[k:])))
            if c: return c[0]
            for (t, tr, me), names in idx.items():
                if t == parts[k - 1] and me == "::".join(parts[k:]): return names[0]
        return None

    def resolve(self, key, ty, trait, args, path):
        """-> (Fn, subst) for a crate function"""
        idx = self.world.impl_index()
        meth = key.rsplit("::", 1)[-1]
        if ty is not None and trait is not None:
            tb, trb = base_name(ty), base_name(trait)
            c = idx.get((tb, trb, meth))
            if c is None and args:
                # type parameter / reference receiver: dispatch on the runtime type
                rt = runtime_type(args[0])
                if rt: c = idx.get((rt, trb, meth))
                if c: tb = rt
            if c is None:
                # impl generated by a macro (`impl Trait for $ty`): all instances share one item name; pick by Self
                for (t0, tr0, me0), names in idx.items():
                    if tr0 == trb and me0 == meth and t0.startswith("$"):
                        st = tb if (tb in self.td.structs or tb in self.td.enums) else (runtime_type(args[0]) if args else None)
                        return self.mod.get_for_self(names[0], st), {"Self": st}
            if c: return self.mod.get_for_self(self.world.pick_impl(c, trait), tb), {"Self": tb}
            # default method of a crate trait
            n = self.world.trait_default(trb, meth)
            if n:
                rt = tb if (tb, trb) in self.world.impl_pairs() else (runtime_type(args[0]) if args else None)
                return self.mod.get(n), {"Self": rt or tb}
            return None, None
        if key in self.mod.index: return self.mod.get(key), None
        parts = key.split("::")
        if len(parts) > 1:
            c = idx.get((parts[-2], None, parts[-1]))
            if c: return self.mod.get(c[0]), None
        n = self.mod.lookup(key)
        if n: return self.mod.get(n), None
        if len(parts) > 1:
            # inherent impl generated by a macro (`impl $name { fn new(..) }`): one item name per module, pick by the type it builds
            for (t0, tr0, me0), names in idx.items():
                if tr0 is None and me0 == parts[-1] and t0.startswith("$"):
                    mods = [nm for nm in names if len(parts) < 3 or nm.split("::<impl", 1)[0].split("::")[-1] == parts[-3]] or names
                    for nm in mods:
                        f = self.mod.get_for_ret(nm, parts[-2])
                        if f is not None and f.ret_ty and parts[-2] in str(f.ret_ty): return f, None
        return None, None

    # ------------------------------------------------------------ execution
    def run_fn(self, fn, args, subst=None):
        self.depth += 1
        if self.depth > self.max_depth:
            self.depth -= 1
            raise Unsupported("call depth bound")
        self.fns_used.add(fn.name)
        fr = Frame(fn)
        fr.subst = subst
        if len(args) != fn.argc:
            if len(args) == fn.argc - 0 and False: pass
            # "rust-call" ABI: closure called with a tuple of arguments
            if len(args) == 2 and isinstance(args[1], Agg) and args[1].ty == "tuple" and fn.argc == 1 + len(args[1].fields):
                args = [args[0]] + list(args[1].fields)
            else:
                self.depth -= 1
                raise Unsupported(f"arity {fn.name}: got {len(args)} want {fn.argc}")
        for i, a in enumerate(args): fr.locals[f"_{i + 1}"] = a
        bb = "bb0"
        try:
            while True:
                sts = fn.blocks[bb]
                pb = fn.parsed.get(bb)
                if pb is None:
                    pb = fn.parsed[bb] = ([parse_stmt(s) for s in sts[:-1]], parse_term(sts[-1]))
                body, term = pb
                for si, st in enumerate(body):
                    k0 = st[0]
                    if k0 == "nop": continue
                    self.steps += 1
                    self.cur = (fn.name, bb, si)
                    if k0 == "assign":
                        lhs = st[1]
                        if len(lhs) == 1:
                            fr.locals[lhs[0][1]] = self.rvalue(fr, st[2], fn.locals.get(lhs[0][1]))
                        else:
                            v = self.rvalue(fr, st[2], None)
                            self.place_ref(fr, lhs).set(v)
                    elif k0 == "setdisc":
                        a = self.place_ref(fr, st[1]).get()
                        a.tag = st[2]
                        if a.fields is None: a.fields = []
                        a.symtag = None; a.alts = None
                self.steps += 1
                if self.steps > self.MAX_STEPS: raise Unsupported("step bound")
                self.cur = (fn.name, bb, -1)
                bb = self.terminator(fr, term)
                if bb is None: return fr.locals.get("_0", UNIT)
        finally:
            self.depth -= 1

    def where(self):
        if not self.cur: return "?"
        name, bb, si = self.cur
        try:
            f = self.mod.get(name)
            return f"{name} {bb}: {f.blocks[bb][si][:200]}"
        except Exception:
            return str(self.cur)

    def terminator(self, fr, t):
        k = t[0]
        if k == "goto": return t[1]
        if k == "return": return None
        if k == "unreachable":
            self.finding("unreachable-terminator", fr.fn.name); raise Panic("unreachable")
        if k == "switch":
            v = self.operand(fr, t[1])
            if isinstance(v, Agg) and v.ty != "tuple":         # switch on a field-less enum moved as value
                v = v.symtag if v.tag is None else v.tag
            if is_sym(v):
                v = z3.simplify(v)
                if z3.is_true(v): v = 1
                elif z3.is_false(v): v = 0
                elif z3.is_int_value(v) or z3.is_bv_value(v): v = v.as_long()
            if is_sym(v):
                ck = (id(t), v.get_id())
                hit = self.world.switch_cache.get(ck)
                if hit is not None:
                    return self.choose(hit[1])
                groups, listed = {}, []
                for val, tgt in t[2]:
                    c = (v == val) if not z3.is_bool(v) else (v if val else z3.Not(v))
                    groups.setdefault(tgt, []).append(c); listed.append(c)
                opts = [(tgt, z3.Or(cs) if len(cs) > 1 else cs[0]) for tgt, cs in groups.items()]
                if t[3] is not None:
                    oc = z3.Not(z3.Or(listed)) if len(listed) > 1 else z3.Not(listed[0])
                    if t[3] in groups: opts = [(tg, z3.Or(c, oc)) if tg == t[3] else (tg, c) for tg, c in opts]
                    else: opts.append((t[3], oc))
                self.world.switch_cache[ck] = (v, opts)      # keeps `v` alive so that its AST id stays unique
                return self.choose(opts)
            if isinstance(v, bool): v = int(v)
            for val, tgt in t[2]:
                if val == v: return tgt
            if t[3] is None: raise Unsupported(f"switch value {v} without target")
            return t[3]
        if k == "assert":
            v = self.operand(fr, t[1])
            good = v if t[2] else ((not v) if not is_sym(v) else z3.Not(v))
            if is_sym(good):
                self.finding("assert:" + t[3], fr.fn.name, z3.Not(good))
                self.solver.add(good)
                if self._check() == z3.unsat: raise Panic("assert always fails")
                return t[4]
            if not good:
                self.finding("assert:" + t[3], fr.fn.name); raise Panic("assert")
            return t[4]
        if k == "call":
            _, dest, callee, args, ret = t
            argv = [self.operand(fr, a) for a in args]
            if callee[0] == "const" and callee[1][0] == "zst":
                tc = self.world.term_cache.get(id(t))
                if tc is None:
                    ty = callee[1][1]
                    i = match_open_back(ty, len(ty) - 1)
                    path = ty[i + 1:-1]
                    last = strip_generics(path).split("::")[-1]
                    is_panic = last in PANIC_FNS and ("panic" in path or "core::" in path or "std::" in path or "alloc::" in path or "option" in path or "result" in path or "slice" in path)
                    tc = self.world.term_cache[id(t)] = (path, is_panic, t)
                path, is_panic = tc[0], tc[1]
                if fr.subst: path = subst_text(path, fr.subst)
                if is_panic:
                    self.finding("panic:" + strip_generics(path), fr.fn.name); raise Panic(path)
                if self.trace_calls is not None: self.trace_calls.append(path[:160])
                v = self.call_path(path, argv, fr)
            else:
                f = self.const(callee[1], fr) if callee[0] == "const" else self.operand(fr, callee)
                v = self.call_value(f, argv)
            if ret is None: raise Panic("diverging call returned")
            if len(dest) == 1: fr.locals[dest[0][1]] = v
            else: self.place_ref(fr, dest).set(v)
            return ret
        raise Unsupported(f"terminator {t}")


def self_type_of_path(path):
    """`Type::<Args>::method::<M>` -> `Type<Args>` (None when the path has no generic Self segment)"""
    s = path.strip()
    if s.startswith("<") or "::<" not in s: return None
    segs = split_top(s.replace("::", "\x00"), "\x00")
    segs = [x.replace("\x00", "::") for x in segs]
    # drop the method (and its own turbofish, which is a separate segment `<..>` after the method name)
    while segs and segs[-1].startswith("<"): segs.pop()
    if segs: segs.pop()
    if len(segs) >= 2 and segs[-1].startswith("<") and not segs[-1].startswith("<impl "):
        return segs[-2] + segs[-1]
    return None


_SUBST_RE = {}


def subst_text(text, subst):
    """replace type-parameter names by concrete types in a printed type / path"""
    keys = tuple(sorted(k for k in subst if k != "Self" or subst[k]))
    if not keys: return text
    rx = _SUBST_RE.get(keys)
    if rx is None:
        rx = _SUBST_RE[keys] = re.compile(r"(?<![\w'])(" + "|".join(re.escape(k) for k in keys) + r")(?![\w])")
    return rx.sub(lambda mo: subst[mo.group(1)] or mo.group(1), text)


def runtime_type(v):
    v = deref(v)
    if isinstance(v, Agg): return v.ty
    if isinstance(v, Str): return "String"
    if isinstance(v, VecObj): return "Vec"
    return None


def fp_to_bits(mdl, val):
    try:
        bv = mdl.eval(z3.fpToIEEEBV(val), model_completion=True)
        return bv.as_long()
    except Exception:
        return None


def top_find(s, needle):
    d = 0
    for i, c in enumerate(s):
        if c in "<([{": d += 1
        elif c in ")]}" or (c == ">" and s[i - 1] not in "-="): d -= 1
        elif d == 0 and s.startswith(needle, i): return i
    return -1


def find_as(s):
    d = 0
    for i, c in enumerate(s):
        if c in "<([{": d += 1
        elif c in ")]}" or (c == ">" and s[i - 1] not in "-="): d -= 1
        elif d == 1 and s.startswith(" as ", i): return i
    return -1


def find_trait_end(rest):
    """`Trait<Args>>::method...` -> index of the `>` closing the qualified-self bracket"""
    d = 0
    for i, c in enumerate(rest):
        if c in "<([{": d += 1
        elif c in ")]}": d -= 1
        elif c == ">" and rest[i - 1] not in "-=":
            if d == 0: return i
            d -= 1
    raise SyntaxError("trait end " + rest[:100])


def match_angle(s, i):
    d = 0
    for j in range(i, len(s)):
        if s[j] == "<": d += 1
        elif s[j] == ">" and s[j - 1] not in "-=":
            d -= 1
            if d == 0: return j
    raise SyntaxError("angle")
