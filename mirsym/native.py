"""Native side: build and talk to the replay runner (real crate, public API), parse its Debug output into trees,
and convert between trees and mirsym values.

tree := ("Name", [children]) | [list] | ("#map", [[k, v], ..]) | ("#set", [..]) | ("", [tuple items]) | str | int | float | bool
"""
import json, os, re, subprocess, sys, time, hashlib, shutil
import z3
from values import *
from mirparse import split_top, base_name, match_close
from world import REPO, VERIF, CACHE, source_hash

RUNNER_DIR = os.path.join(VERIF, "replay")
TARGET = os.path.join(CACHE, "replay-target")


class NativeError(Exception):
    pass


def build_runner(profile="dev"):
    """(re)build the replay runner against the current /repo tree; returns the binary path"""
    lock_src = os.path.join(REPO, "Cargo.lock")
    lock_dst = os.path.join(RUNNER_DIR, "Cargo.lock")
    try:
        if not os.path.exists(lock_dst) or open(lock_src, "rb").read() != open(lock_dst, "rb").read():
            shutil.copyfile(lock_src, lock_dst)
    except OSError:
        pass
    env = dict(os.environ, CARGO_NET_OFFLINE="true", CARGO_TARGET_DIR=TARGET)
    env["RUSTFLAGS"] = "--cfg rigetti_quil_rs_verif"       # verification hooks (add-only observation points)
    cmd = ["cargo", "build", "--offline", "--quiet"] + (["--release"] if profile == "release" else [])
    import fcntl
    os.makedirs(CACHE, exist_ok=True)
    with open(os.path.join(CACHE, "replay.lock"), "w") as lf:
        fcntl.flock(lf, fcntl.LOCK_EX)
        p = subprocess.run(cmd, cwd=RUNNER_DIR, capture_output=True, text=True, env=env)
    if p.returncode != 0:
        raise NativeError("replay runner does not build:\n" + p.stderr[-3000:])
    return os.path.join(TARGET, "release" if profile == "release" else "debug", "replay")


class Runner:
    """one long-lived runner process; requests are JSON lines. A crash (abort, stack overflow) is reported and the
    process is restarted."""

    def __init__(self, profile="dev"):
        self.profile = profile
        self.bin = build_runner(profile)
        self.p = None
        self.calls = 0

    def _start(self):
        self.p = subprocess.Popen([self.bin], stdin=subprocess.PIPE, stdout=subprocess.PIPE, stderr=subprocess.DEVNULL, text=True, bufsize=1)

    def call(self, req, timeout=20):
        if self.p is None or self.p.poll() is not None: self._start()
        self.calls += 1
        try:
            self.p.stdin.write(json.dumps(req) + "\n"); self.p.stdin.flush()
        except BrokenPipeError:
            self._start()
            self.p.stdin.write(json.dumps(req) + "\n"); self.p.stdin.flush()
        import select
        r, _, _ = select.select([self.p.stdout], [], [], timeout)
        if not r:
            self.p.kill(); self.p.wait(); self.p = None
            return {"crash": "timeout"}
        line = self.p.stdout.readline()
        if not line:
            rc = self.p.wait(); self.p = None
            return {"crash": f"exit {rc}"}
        return json.loads(line)

    def close(self):
        if self.p is not None and self.p.poll() is None:
            try: self.p.stdin.close()
            except Exception: pass
            try: self.p.wait(timeout=2)
            except Exception: self.p.kill()
        self.p = None


# ---------------------------------------------------------------------- Debug text -> tree
class _P:
    def __init__(self, s): self.s, self.i = s, 0

    def ws(self):
        while self.i < len(self.s) and self.s[self.i] in " \n\t\r": self.i += 1

    def peek(self):
        self.ws()
        return self.s[self.i] if self.i < len(self.s) else ""

    def expect(self, c):
        self.ws()
        if self.s[self.i] != c: raise ValueError(f"debug parse: expected {c!r} at {self.i}: {self.s[max(0, self.i - 30):self.i + 30]!r}")
        self.i += 1

    def value(self):
        v = self.value1()
        if self.s.startswith("..", self.i) and not self.s.startswith("...", self.i):      # `a..b` (Debug of Range)
            self.i += 2
            if self.s.startswith("=", self.i): self.i += 1
            w = self.value1()
            return ("#range", [v, w])
        return v

    def value1(self):
        c = self.peek()
        if c == '"': return self.string()
        if c == "'": return self.char()
        if c == "[":
            self.i += 1
            return self.seq("]")
        if c == "(":
            self.i += 1
            return ("", self.seq(")"))
        if c == "{":
            self.i += 1
            return self.setmap()
        if c == "&":
            self.i += 1
            return self.value()
        m = re.compile(r"-?(?:0x[0-9A-Fa-f]+|inf|NaN|\d[\d_]*(?:\.\d+)?(?:[eE][-+]?\d+)?)(?![\w])").match(self.s, self.i)
        if m:
            self.i = m.end()
            t = m.group(0)
            if "0x" in t: return int(t, 16)
            if t in ("inf", "-inf"): return float(t)
            if t in ("NaN", "-NaN"): return float("nan")
            if "." in t or "e" in t or "E" in t: return float(t)
            return int(t)
        m = re.compile(r"[A-Za-z_][\w:]*").match(self.s, self.i)
        if not m: raise ValueError(f"debug parse: unexpected {self.s[self.i:self.i + 40]!r}")
        self.i = m.end()
        name = m.group(0)
        if name == "true": return True
        if name == "false": return False
        c = self.peek()
        if c == "(":
            self.i += 1
            return (name, self.seq(")"))
        if c == "{":
            self.i += 1
            kids = []
            while True:
                if self.peek() == "}":
                    self.i += 1; break
                m = re.compile(r"\s*(?:r#)?(\w+)\s*:").match(self.s, self.i)
                if m: self.i = m.end()
                elif self.s.startswith("..", self.i):
                    self.i += 2; continue
                kids.append(self.value())
                if self.peek() == ",": self.i += 1
            return (name, kids)
        return (name, [])

    def seq(self, close):
        out = []
        while True:
            if self.peek() == close:
                self.i += 1; return out
            out.append(self.value())
            if self.peek() == ",": self.i += 1

    def setmap(self):
        items, is_map = [], False
        while True:
            if self.peek() == "}":
                self.i += 1; break
            k = self.value()
            if self.peek() == ":":
                self.i += 1
                is_map = True
                items.append([k, self.value()])
            else:
                items.append(k)
            if self.peek() == ",": self.i += 1
        return ("#map", items) if is_map else ("#set", items)

    def string(self):
        assert self.s[self.i] == '"'
        self.i += 1
        out = []
        while True:
            c = self.s[self.i]
            if c == '"':
                self.i += 1; break
            if c == "\\":
                d = self.s[self.i + 1]
                if d == "u":
                    j = self.s.index("}", self.i)
                    out.append(chr(int(self.s[self.i + 3:j], 16))); self.i = j + 1; continue
                out.append({"n": "\n", "t": "\t", "r": "\r", "0": "\0", "\\": "\\", '"': '"', "'": "'"}[d]); self.i += 2; continue
            out.append(c); self.i += 1
        return "".join(out)

    def char(self):
        # 'a' or '\n' or '\u{..}'
        j = self.i + 1
        if self.s[j] == "\\":
            if self.s[j + 1] == "u":
                k = self.s.index("}", j)
                v = chr(int(self.s[j + 3:k], 16)); self.i = k + 2
            else:
                v = {"n": "\n", "t": "\t", "r": "\r", "0": "\0", "\\": "\\", '"': '"', "'": "'"}[self.s[j + 1]]; self.i = j + 3
        else:
            v = self.s[j]; self.i = j + 2
        return ("#char", [v])


def parse_debug(text):
    p = _P(text)
    v = p.value()
    p.ws()
    if p.i != len(text): raise ValueError(f"debug parse: trailing {text[p.i:p.i + 40]!r}")
    return v


# ---------------------------------------------------------------------- mirsym value -> tree
def to_tree(m, v):
    """convert a mirsym value into a tree (symbolic leaves stay z3 / Str); forks on symbolic tags"""
    v = deref(v)
    if isinstance(v, Agg):
        if v.ty in ("ArcIntern", "Arc", "Rc", "Box", "Lazy"): return to_tree(m, v.fields[0])
        if v.ty == "tuple": return ("", [to_tree(m, x) for x in v.fields])
        if v.ty == "()": return ("", [])
        if v.ty == "Range": return ("#range", [to_tree(m, x) for x in v.fields])
        if v.tag is None and v.symtag is not None: m.force_tag(v)
        if v.ty in m.td.enums and v.tag is not None:
            return (m.td.enums[v.ty][v.tag], [to_tree(m, x) for x in v.fields])
        return (v.ty, [to_tree(m, x) for x in v.fields])
    if isinstance(v, BoxObj): return to_tree(m, v.fields[0])
    if isinstance(v, VecObj): return [to_tree(m, x) for x in v.items]
    if isinstance(v, Slice): return [to_tree(m, x) for x in v.vec.items[v.lo:v.hi]]
    if isinstance(v, SetObj): return ("#set", [to_tree(m, k) for k, _ in v.items])
    if isinstance(v, MapObj):
        if not v.items: return ("#set", [])          # `{}` in Debug output does not say which; one canonical form
        return ("#map", [[to_tree(m, k), to_tree(m, x)] for k, x in v.items])
    if isinstance(v, Str): return v.s if v.s is not None else v
    return v


def eval_tree(t, model, vars_):
    """substitute a concrete model (dict name -> value) into a tree with symbolic leaves"""
    if isinstance(t, tuple): return (t[0], [eval_tree(x, model, vars_) for x in t[1]])
    if isinstance(t, list): return [eval_tree(x, model, vars_) for x in t]
    if isinstance(t, dict): return {k: eval_tree(x, model, vars_) for k, x in t.items()}
    if isinstance(t, Str):
        return t.alpha[eval_tree(t.sym, model, vars_)]
    if is_sym(t) and isinstance(model, z3.ModelRef):
        r = model.eval(t, model_completion=True)
        if z3.is_int_value(r) or z3.is_bv_value(r): return r.as_long()
        if z3.is_true(r): return True
        if z3.is_false(r): return False
        if z3.is_fp(r): return _fpval(r)
        return r
    if is_sym(t):
        sub = []
        for name, var in vars_.items():
            val = model.get(name)
            if val is None: continue
            if z3.is_int(var): sub.append((var, z3.IntVal(val)))
            elif z3.is_bv(var): sub.append((var, z3.BitVecVal(val, var.size())))
            elif z3.is_bool(var): sub.append((var, z3.BoolVal(val)))
            elif z3.is_fp(var) and isinstance(val, tuple): sub.append((var, z3.fpBVToFP(z3.BitVecVal(val[1], 64), z3.Float64())))
        r = z3.simplify(z3.substitute(t, *sub))
        if z3.is_int_value(r) or z3.is_bv_value(r): return r.as_long()
        if z3.is_true(r): return True
        if z3.is_false(r): return False
        if z3.is_fp_value(r) if hasattr(z3, "is_fp_value") else False:
            return float(r.as_string()) if False else _fpval(r)
        return r
    return t


def _fpval(r):
    import struct
    bv = z3.simplify(z3.fpToIEEEBV(r))
    return struct.unpack("<d", struct.pack("<Q", bv.as_long()))[0]


def tree_eq(a, b, m=None):
    """structural equality of trees; returns bool or z3 Bool. `#set`/`#map` compare unordered."""
    from lib_core import and_all, or_any, str_eq
    if isinstance(a, Str) or isinstance(b, Str):
        if isinstance(a, (Str, str)) and isinstance(b, (Str, str)): return str_eq(m, a, b)
        return False
    if isinstance(a, tuple):
        if not isinstance(b, tuple) or a[0] != b[0] or len(a[1]) != len(b[1]): return False
        if a[0] == "#set":
            return and_all(or_any(tree_eq(x, y, m) for y in b[1]) for x in a[1])
        if a[0] == "#map":
            return and_all(or_any(and_all([tree_eq(x[0], y[0], m), tree_eq(x[1], y[1], m)]) for y in b[1]) for x in a[1])
        return and_all(tree_eq(x, y, m) for x, y in zip(a[1], b[1]))
    if isinstance(a, list):
        if not isinstance(b, list) or len(a) != len(b): return False
        return and_all(tree_eq(x, y, m) for x, y in zip(a, b))
    if isinstance(b, (tuple, list)): return False
    if isinstance(a, float) or isinstance(b, float):
        if is_sym(a) or is_sym(b): return a == b
        if isinstance(a, str) or isinstance(b, str): return False
        return (a == b) or (a != a and b != b)
    if is_sym(a) or is_sym(b):
        if isinstance(a, str) or isinstance(b, str): return False
        if is_sym(a) and z3.is_bv(a) and not is_sym(b): b = z3.BitVecVal(b, a.size())
        if is_sym(b) and z3.is_bv(b) and not is_sym(a): a = z3.BitVecVal(a, b.size())
        return a == b
    return type(a) == type(b) and a == b if isinstance(a, (str, bool)) or isinstance(b, (str, bool)) else a == b


def tree_diff(a, b, path=""):
    """first difference between two concrete trees (for reports)"""
    if isinstance(a, tuple) and isinstance(b, tuple):
        if a[0] != b[0]: return f"{path}: {a[0]} != {b[0]}"
        if len(a[1]) != len(b[1]): return f"{path}/{a[0]}: arity {len(a[1])} != {len(b[1])}"
        if a[0] in ("#set", "#map"):
            return None if tree_eq(a, b) is True else f"{path}/{a[0]}: {a[1]!r} != {b[1]!r}"
        for i, (x, y) in enumerate(zip(a[1], b[1])):
            d = tree_diff(x, y, f"{path}/{a[0]}.{i}")
            if d: return d
        return None
    if isinstance(a, list) and isinstance(b, list):
        if len(a) != len(b): return f"{path}: len {len(a)} != {len(b)}"
        for i, (x, y) in enumerate(zip(a, b)):
            d = tree_diff(x, y, f"{path}[{i}]")
            if d: return d
        return None
    if tree_eq(a, b) is True: return None
    return f"{path}: {a!r} != {b!r}"


# ---------------------------------------------------------------------- tree -> mirsym value (typed)
def from_tree(td, t, ty):
    """build the mirsym value of declared type `ty` (source syntax) from a Debug tree"""
    ty = " ".join(ty.strip().split())
    ty = re.sub(r"^&(?:'\w+ )?(?:mut )?", "", ty)
    b = base_name(ty)
    args = []
    if "<" in ty and ty.endswith(">"):
        args = split_top(ty[ty.index("<") + 1:-1])
        args = [a for a in args if not a.startswith("'")]
    if ty.startswith("(") and ty.endswith(")"):
        parts = split_top(ty[1:-1])
        return TUP(*[from_tree(td, x, p) for x, p in zip(t[1], parts)])
    if b in td.aliases and b not in td.structs and b not in td.enums:
        return from_tree(td, t, td.aliases[b])
    if b in ("String", "str"): return Str(t)
    if b in ("u8", "u16", "u32", "u64", "usize", "i8", "i16", "i32", "i64", "isize", "u128", "i128"):
        bits = int(re.sub(r"\D", "", b) or 64)
        return t & ((1 << bits) - 1)
    if b == "bool": return bool(t)
    if b in ("f64", "f32"): return float(t)
    if b == "char": return ord(t[1][0])
    if b in ("Vec", "VecDeque") or ty.startswith("["):
        inner = args[0] if args else ty[1:-1].split(";")[0]
        return VecObj([from_tree(td, x, inner) for x in t])
    if b == "Option":
        return NONE() if t[0] == "None" else SOME(from_tree(td, t[1][0], args[0]))
    if b == "Box": return BoxObj(from_tree(td, t, args[0]))
    if b in ("ArcIntern", "Arc", "Rc"): return Agg(b, None, [from_tree(td, t, args[0])])
    if b in ("IndexMap", "HashMap", "BTreeMap"):
        mp = MapObj({"IndexMap": "index", "HashMap": "hash", "BTreeMap": "btree"}[b])
        for k, v in t[1]: mp.items.append([from_tree(td, k, args[0]), from_tree(td, v, args[1])])
        return mp
    if b in ("IndexSet", "HashSet", "BTreeSet"):
        s = SetObj({"IndexSet": "index", "HashSet": "hash", "BTreeSet": "btree"}[b])
        for k in t[1]: s.items.append([from_tree(td, k, args[0]), UNIT])
        return s
    if b in ("Complex", "Complex64"):
        return Agg("Complex", None, [float(t[1][0]), float(t[1][1])])
    if b in td.enums and b not in ("Option", "Result") and not (b in td.structs and isinstance(t, tuple) and (b, t[0]) not in td.variants):
        vn = t[0]
        kind, names, types = td.variants[(b, vn)]
        return Agg(b, td.enums[b].index(vn), [from_tree(td, x, p) for x, p in zip(t[1], types)])
    if b in td.structs:
        if b == "QubitPlaceholder" or b == "TargetPlaceholder":
            return Agg(b, None, [t[1][0] if t[1] else 0])
        types = td.struct_types[b]
        if len(types) != len(t[1]): raise NativeError(f"from_tree: struct {b} arity {len(types)} vs {t!r}")
        return Agg(b, None, [from_tree(td, x, p) for x, p in zip(t[1], types)])
    raise NativeError(f"from_tree: unknown type {ty!r} for {t!r}")
