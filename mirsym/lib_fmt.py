"""library models: core::fmt (segment writer) -- filled in by the text tier"""
from values import *
M = {}
G = {}


def install(world):
    world.models.update(M)
    world.generic_models.update(G)
