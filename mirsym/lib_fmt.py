"""library models: core::fmt.

`Arguments` values are built structurally; `fmt::format` / `write_fmt` render them through the interpreted
`Display` / `Debug` / `Quil` impls of crate types into a `Str` (concrete text; symbolic names are forked over their
alphabet when their characters are needed)."""
from values import *
from mirparse import base_name

M = {}
G = {}


def model(*names):
    def deco(f):
        for n in names: M[n] = f
        return f
    return deco


def install(world):
    world.models.update(M)
    world.generic_models.update(G)


class Formatter:
    """core::fmt::Formatter: accumulates text"""
    __slots__ = ("buf", "alternate")

    def __init__(self):
        self.buf, self.alternate = [], False

    def text(self):
        return "".join(self.buf)


@model("Arguments::from_str", "core::fmt::Arguments::from_str", "std::fmt::Arguments::from_str", "Arguments::from_str_nonconst",
       "core::fmt::Arguments::from_str_nonconst", "std::fmt::Arguments::from_str_nonconst")
def args_from_str(m, s): return Agg("Arguments", None, [VecObj([deref(s)]), VecObj([])])


def decode_template(bs):
    """core::fmt::Arguments template bytes (rustc >= 1.9x) -> [("lit", str) | ("arg", index|None, flags, width, precision)]"""
    parts, i = [], 0
    while True:
        n = bs[i]; i += 1
        if n == 0: return parts
        if n < 0x80:
            parts.append(("lit", bytes(bs[i:i + n]).decode("utf8"))); i += n
        elif n == 0x80:
            ln = bs[i] | (bs[i + 1] << 8); i += 2
            parts.append(("lit", bytes(bs[i:i + ln]).decode("utf8"))); i += ln
        elif n == 0xC0:
            parts.append(("arg", None, 0, None, None))
        else:
            flags = width = prec = idx = None
            if n & 1: flags = int.from_bytes(bytes(bs[i:i + 4]), "little"); i += 4
            if n & 2: width = bs[i] | (bs[i + 1] << 8); i += 2
            if n & 4: prec = bs[i] | (bs[i + 1] << 8); i += 2
            if n & 8: idx = bs[i] | (bs[i + 1] << 8); i += 2
            if n & 48: raise Unsupported("format placeholder with indirect width/precision")
            parts.append(("arg", idx, flags or 0, width, prec))


@model("Arguments::new", "core::fmt::Arguments::new", "Arguments::new_const", "Arguments::new_v1", "core::fmt::Arguments::new_v1", "core::fmt::Arguments::new_const")
def args_new(m, pieces, args=None, *rest):
    ps = deref(pieces)
    ar = deref(args) if args is not None else VecObj([])
    if isinstance(ps, VecObj) and ps.items and isinstance(ps.items[0], int):
        return Agg("Arguments", None, [decode_template(ps.items), ar])
    return Agg("Arguments", None, [ps if isinstance(ps, (VecObj, Slice)) else VecObj([ps]), ar])


for _k in ("display", "debug", "lower_hex", "upper_hex", "lower_exp", "upper_exp", "binary", "octal", "pointer"):
    def _mk(kind):
        return lambda m, r: Agg("Argument", None, [r, kind])
    M[f"core::fmt::rt::Argument::new_{_k}"] = _mk(_k)
    M[f"Argument::new_{_k}"] = _mk(_k)


def display_value(m, v, kind, fmt):
    """write the Display/Debug rendering of value v into fmt"""
    import struct
    dv = deref(v)
    if isinstance(dv, Str):
        s = m.str_concrete(dv)
        fmt.buf.append(repr_rust_str(s) if kind == "debug" else s); return
    if isinstance(dv, bool):
        fmt.buf.append("true" if dv else "false"); return
    if isinstance(dv, int):
        fmt.buf.append(("%x" % dv) if kind == "lower_hex" else ("%X" % dv) if kind == "upper_hex" else str(dv)); return
    if isinstance(dv, float):
        fmt.buf.append(rust_f64_display(dv, kind == "debug")); return
    if is_sym(dv):
        if getattr(m, "opaque_symbolic_fmt", False):
            fmt.buf.append("\u27e8sym\u27e9"); return          # the driver declared the text itself irrelevant (only Ok / Err is observed)
        raise Unsupported("formatting a symbolic scalar")
    if isinstance(dv, Agg):
        trait = "Debug" if kind == "debug" else "Display"
        cell = [fmt]
        r = m.call_path(f"<{dv.ty} as {trait}>::fmt", [v if isinstance(v, Ref) else Ref([dv], 0), Ref(cell, 0)])
        return
    raise Unsupported(f"display of {dv!r}")


def repr_rust_str(s):
    out = '"'
    for c in s:
        out += {'"': '\\"', "\\": "\\\\", "\n": "\\n", "\t": "\\t", "\r": "\\r"}.get(c, c)
    return out + '"'


def rust_f64_display(x, debug=False):
    if x != x: return "NaN"
    if x == float("inf"): return "inf"
    if x == float("-inf"): return "-inf"
    if x == int(x) and abs(x) < 1e16:
        s = str(int(x))
        if x == 0 and str(x).startswith("-"): s = "-0"
        return s + (".0" if debug else "")
    r = repr(x)
    if "e" in r or "E" in r:
        from decimal import Decimal
        r = format(Decimal(r), "f")
    return r


def render_arguments(m, a, fmt):
    a = deref(a)
    if isinstance(a.fields[0], list):          # decoded template
        args = a.fields[1].items if isinstance(a.fields[1], VecObj) else a.fields[1].vec.items[a.fields[1].lo:a.fields[1].hi]
        nxt = 0
        for p in a.fields[0]:
            if p[0] == "lit":
                fmt.buf.append(p[1]); continue
            _, idx, flags, width, prec = p
            if idx is not None: nxt = idx
            arg = deref(args[nxt]); nxt += 1
            if width is not None or prec is not None or (flags & ~(1 << 23)) not in (0, 0x20, 0x60000020):
                m.world.count("fmt_options_ignored")
            old = fmt.alternate
            fmt.alternate = bool(flags & (1 << 23))
            display_value(m, arg.fields[0], arg.fields[1], fmt)
            fmt.alternate = old
        return
    pieces = a.fields[0].items if isinstance(a.fields[0], VecObj) else a.fields[0].vec.items[a.fields[0].lo:a.fields[0].hi]
    args = a.fields[1].items if isinstance(a.fields[1], VecObj) else a.fields[1].vec.items[a.fields[1].lo:a.fields[1].hi]
    for i, p in enumerate(pieces):
        fmt.buf.append(m.str_concrete(p))
        if i < len(args):
            arg = deref(args[i])
            display_value(m, arg.fields[0], arg.fields[1], fmt)
    for j in range(len(pieces), len(args)):
        arg = deref(args[j])
        display_value(m, arg.fields[0], arg.fields[1], fmt)


@model("std::fmt::format", "alloc::fmt::format", "format", "std::fmt::format::format_inner", "alloc::fmt::format::format_inner")
def fmt_format(m, a):
    f = Formatter()
    render_arguments(m, a, f)
    return Str(f.text())


@model("Formatter::write_str", "core::fmt::Formatter::write_str", "std::fmt::Formatter::write_str")
def formatter_write_str(m, f, s):
    deref(f).buf.append(m.str_concrete(s))
    return OK(UNIT)


@model("Formatter::write_fmt", "core::fmt::Formatter::write_fmt", "std::fmt::Formatter::write_fmt")
def formatter_write_fmt(m, f, a):
    render_arguments(m, a, deref(f))
    return OK(UNIT)


@model("Formatter::write_char", "core::fmt::Formatter::write_char")
def formatter_write_char(m, f, c):
    deref(f).buf.append(chr(c))
    return OK(UNIT)


def _debug_opaque(m, f, name, *rest):
    """derived Debug impls: only the type name is written (Debug text is used for error messages only; a check that
    depended on it would see the marker and could not confirm natively)"""
    deref(f).buf.append(m.str_concrete(name) + "{..}")
    m.world.count("debug_opaque")
    return OK(UNIT)


for _n in range(1, 9):
    M[f"Formatter::debug_struct_field{_n}_finish"] = M[f"core::fmt::Formatter::debug_struct_field{_n}_finish"] = _debug_opaque
    M[f"Formatter::debug_tuple_field{_n}_finish"] = M[f"core::fmt::Formatter::debug_tuple_field{_n}_finish"] = _debug_opaque
M["Formatter::debug_struct_fields_finish"] = M["Formatter::debug_tuple_fields_finish"] = _debug_opaque


class _DebugBuilder:
    __slots__ = ("f",)
    def __init__(self, f): self.f = f


def _debug_builder(m, f, name=None, *rest):
    if name is not None: deref(f).buf.append(m.str_concrete(name) + "{..}")
    return Agg("DebugBuilder", None, [deref(f)])


for _n in ("debug_struct", "debug_tuple", "debug_list", "debug_set", "debug_map"):
    M[f"Formatter::{_n}"] = M[f"core::fmt::Formatter::{_n}"] = _debug_builder
for _t in ("DebugStruct", "DebugTuple", "DebugList", "DebugSet", "DebugMap"):
    for _mth in ("field", "entry", "entries", "key", "value", "field_with"):
        M[f"{_t}::{_mth}"] = M[f"core::fmt::builders::{_t}::{_mth}"] = lambda m, b, *a: b
    for _mth in ("finish", "finish_non_exhaustive"):
        M[f"{_t}::{_mth}"] = M[f"core::fmt::builders::{_t}::{_mth}"] = lambda m, b, *a: OK(UNIT)
M["Formatter::alternate"] =M["core::fmt::Formatter::alternate"] = lambda m, f: deref(f).alternate


def write_target(m, w):
    """text sink behind a `&mut impl fmt::Write`: a Formatter, or a String slot"""
    t = deref(w)
    return t


def g_write_str(m, path, w, s):
    t = deref(w)
    if isinstance(t, Formatter):
        t.buf.append(m.str_concrete(s)); return OK(UNIT)
    if isinstance(t, Str):
        r = w
        while isinstance(r.get(), Ref): r = r.get()
        r.set(Str(m.str_concrete(t) + m.str_concrete(s))); return OK(UNIT)
    return NotImplemented


def g_write_fmt(m, path, w, a):
    t = deref(w)
    f = Formatter()
    render_arguments(m, a, f)
    if isinstance(t, Formatter):
        t.buf.append(f.text()); return OK(UNIT)
    if isinstance(t, Str):
        r = w
        while isinstance(r.get(), Ref): r = r.get()
        r.set(Str(m.str_concrete(t) + f.text())); return OK(UNIT)
    return NotImplemented


def g_write_char(m, path, w, c):
    return g_write_str(m, path, w, Str(chr(c)))


G["<_ as Write>::write_str"] = g_write_str
G["<_ as Write>::write_fmt"] = g_write_fmt
G["<_ as Write>::write_char"] = g_write_char


def g_display_fmt(m, path, v, f):
    dv = deref(v)
    if isinstance(dv, (Str, int, float, bool)) and not isinstance(dv, Agg):
        display_value(m, v, "display", deref(f)); return OK(UNIT)
    return NotImplemented


def g_debug_fmt(m, path, v, f):
    dv = deref(v)
    if isinstance(dv, (Str, int, float, bool)) and not isinstance(dv, Agg):
        display_value(m, v, "debug", deref(f)); return OK(UNIT)
    return NotImplemented


G["<_ as Display>::fmt"] = g_display_fmt
G["<_ as Debug>::fmt"] = g_debug_fmt


def g_to_string(m, path, r):
    v = deref(r)
    if isinstance(v, Str): return v
    f = Formatter()
    display_value(m, r, "display", f)
    return Str(f.text())


G["<_ as ToString>::to_string"] = g_to_string
