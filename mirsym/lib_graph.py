"""library models: petgraph -- filled in by the scheduling tier"""
from values import *
M = {}
G = {}


def install(world):
    world.models.update(M)
    world.generic_models.update(G)
