"""library models: petgraph GraphMap / Graph (adjacency lists with the interpreted Eq of node values)"""
from values import *
from lib_core import val_eq

M = {}
G = {}


def model(*names):
    def deco(f):
        for n in names: M[n] = f
        return f
    return deco


def install(world):
    world.models.update(M)
    world.generic_models.update(G)


class GraphObj:
    """GraphMap<N, E, Ty>: nodes in insertion order, edges [a, b, weight] in insertion order"""
    __slots__ = ("nodes", "edges", "directed")

    def __init__(self):
        self.nodes, self.edges, self.directed = [], [], True

    def __repr__(self):
        return f"Graph(n={len(self.nodes)}, e={len(self.edges)})"


def _same(m, a, b):
    return m.branch_bool(val_eq(m, a, b))


def _find_node(m, g, n):
    for i, x in enumerate(g.nodes):
        if _same(m, x, n): return i
    return -1


def _find_edge(m, g, a, b):
    for i, e in enumerate(g.edges):
        if _same(m, e[0], a) and _same(m, e[1], b): return i
    return -1


@model("GraphMap::new", "petgraph::graphmap::GraphMap::new", "GraphMap::with_capacity", "<GraphMap as Default>::default")
def gm_new(m, *a): return GraphObj()


@model("GraphMap::add_node", "petgraph::graphmap::GraphMap::add_node")
def gm_add_node(m, r, n):
    g = deref(r)
    if _find_node(m, g, n) < 0: g.nodes.append(n)
    return n


@model("GraphMap::add_edge", "petgraph::graphmap::GraphMap::add_edge")
def gm_add_edge(m, r, a, b, w):
    g = deref(r)
    for n in (a, b):
        if _find_node(m, g, n) < 0: g.nodes.append(n)
    i = _find_edge(m, g, a, b)
    if i >= 0:
        old = g.edges[i][2]; g.edges[i][2] = w
        return SOME(old)
    g.edges.append([a, b, w])
    return NONE()


@model("GraphMap::edge_weight_mut", "GraphMap::edge_weight", "petgraph::graphmap::GraphMap::edge_weight_mut", "petgraph::graphmap::GraphMap::edge_weight")
def gm_edge_weight(m, r, a, b):
    g = deref(r)
    i = _find_edge(m, g, a, b)
    return SOME(Ref(g.edges[i], 2)) if i >= 0 else NONE()


@model("GraphMap::contains_node")
def gm_contains_node(m, r, n): return _find_node(m, deref(r), n) >= 0


@model("GraphMap::contains_edge")
def gm_contains_edge(m, r, a, b): return _find_edge(m, deref(r), a, b) >= 0


M["GraphMap::node_count"] = lambda m, r: len(deref(r).nodes)
M["GraphMap::edge_count"] = lambda m, r: len(deref(r).edges)
M["GraphMap::nodes"] = lambda m, r: m.world.list_iter(list(deref(r).nodes))
M["GraphMap::all_edges"] = lambda m, r: m.world.list_iter([TUP(e[0], e[1], Ref(e, 2)) for e in deref(r).edges])


def _is_outgoing(d):
    d = deref(d)
    return d.tag == 0       # petgraph::Direction { Outgoing = 0, Incoming = 1 }


@model("GraphMap::neighbors_directed")
def gm_neighbors_directed(m, r, n, d):
    g = deref(r)
    out = []
    for e in g.edges:
        if _is_outgoing(d):
            if _same(m, e[0], n): out.append(e[1])
        elif _same(m, e[1], n): out.append(e[0])
    return m.world.list_iter(out)


@model("GraphMap::neighbors")
def gm_neighbors(m, r, n):
    g = deref(r)
    return m.world.list_iter([e[1] for e in g.edges if _same(m, e[0], n)])


@model("GraphMap::edges_directed")
def gm_edges_directed(m, r, n, d):
    g = deref(r)
    out = []
    for e in g.edges:
        if _is_outgoing(d):
            if _same(m, e[0], n): out.append(TUP(e[0], e[1], Ref(e, 2)))
        elif _same(m, e[1], n): out.append(TUP(e[0], e[1], Ref(e, 2)))
    return m.world.list_iter(out)


@model("GraphMap::edges")
def gm_edges(m, r, n):
    g = deref(r)
    return m.world.list_iter([TUP(e[0], e[1], Ref(e, 2)) for e in g.edges if _same(m, e[0], n)])


@model("GraphMap::remove_edge")
def gm_remove_edge(m, r, a, b):
    g = deref(r)
    i = _find_edge(m, g, a, b)
    if i < 0: return NONE()
    return SOME(g.edges.pop(i)[2])
