"""library models: petgraph GraphMap / Graph (adjacency lists with the interpreted Eq of node values)"""
from values import *
from lib_core import val_eq

M = {}
G = {}


def model(*names):
    def deco(f):
        for n in names: M[n] = f
        return f
    return deco


def install(world):
    world.models.update(M)
    world.generic_models.update(G)


class GraphObj:
    """GraphMap<N, E, Ty>: nodes in insertion order, edges [a, b, weight] in insertion order"""
    __slots__ = ("nodes", "edges", "directed")

    def __init__(self):
        self.nodes, self.edges, self.directed = [], [], True

    def __repr__(self):
        return f"Graph(n={len(self.nodes)}, e={len(self.edges)})"


def _same(m, a, b):
    return m.branch_bool(val_eq(m, a, b))


def _find_node(m, g, n):
    for i, x in enumerate(g.nodes):
        if _same(m, x, n): return i
    return -1


def _find_edge(m, g, a, b):
    for i, e in enumerate(g.edges):
        if _same(m, e[0], a) and _same(m, e[1], b): return i
    return -1


@model("GraphMap::new", "petgraph::graphmap::GraphMap::new", "GraphMap::with_capacity", "<GraphMap as Default>::default")
def gm_new(m, *a): return GraphObj()


@model("GraphMap::add_node", "petgraph::graphmap::GraphMap::add_node")
def gm_add_node(m, r, n):
    g = deref(r)
    if _find_node(m, g, n) < 0: g.nodes.append(n)
    return n


@model("GraphMap::add_edge", "petgraph::graphmap::GraphMap::add_edge")
def gm_add_edge(m, r, a, b, w):
    g = deref(r)
    for n in (a, b):
        if _find_node(m, g, n) < 0: g.nodes.append(n)
    i = _find_edge(m, g, a, b)
    if i >= 0:
        old = g.edges[i][2]; g.edges[i][2] = w
        return SOME(old)
    g.edges.append([a, b, w])
    return NONE()


@model("GraphMap::edge_weight_mut", "GraphMap::edge_weight", "petgraph::graphmap::GraphMap::edge_weight_mut", "petgraph::graphmap::GraphMap::edge_weight")
def gm_edge_weight(m, r, a, b):
    g = deref(r)
    i = _find_edge(m, g, a, b)
    return SOME(Ref(g.edges[i], 2)) if i >= 0 else NONE()


@model("GraphMap::contains_node")
def gm_contains_node(m, r, n): return _find_node(m, deref(r), n) >= 0


@model("GraphMap::contains_edge")
def gm_contains_edge(m, r, a, b): return _find_edge(m, deref(r), a, b) >= 0


M["GraphMap::node_count"] = lambda m, r: len(deref(r).nodes)
M["GraphMap::edge_count"] = lambda m, r: len(deref(r).edges)
M["GraphMap::nodes"] = lambda m, r: m.world.list_iter(list(deref(r).nodes))
M["GraphMap::all_edges"] = lambda m, r: m.world.list_iter([TUP(e[0], e[1], Ref(e, 2)) for e in deref(r).edges])


def _is_outgoing(d):
    d = deref(d)
    if isinstance(d, Agg) and d.tag is None:          # an enum the crate does not define is built by variant name
        if d.ty.endswith("Outgoing"): return True
        if d.ty.endswith("Incoming"): return False
        raise Unsupported(f"petgraph Direction value {d!r}")
    if isinstance(d, int): return d == 0
    return d.tag == 0       # petgraph::Direction { Outgoing = 0, Incoming = 1 }


@model("GraphMap::neighbors_directed")
def gm_neighbors_directed(m, r, n, d):
    g = deref(r)
    out = []
    for e in g.edges:
        if _is_outgoing(d):
            if _same(m, e[0], n): out.append(e[1])
        elif _same(m, e[1], n): out.append(e[0])
    return m.world.list_iter(out)


@model("GraphMap::neighbors")
def gm_neighbors(m, r, n):
    g = deref(r)
    return m.world.list_iter([e[1] for e in g.edges if _same(m, e[0], n)])


@model("GraphMap::edges_directed")
def gm_edges_directed(m, r, n, d):
    g = deref(r)
    out = []
    for e in g.edges:
        if _is_outgoing(d):
            if _same(m, e[0], n): out.append(TUP(e[0], e[1], Ref(e, 2)))
        elif _same(m, e[1], n): out.append(TUP(e[0], e[1], Ref(e, 2)))
    return m.world.list_iter(out)


@model("GraphMap::edges")
def gm_edges(m, r, n):
    g = deref(r)
    return m.world.list_iter([TUP(e[0], e[1], Ref(e, 2)) for e in g.edges if _same(m, e[0], n)])


@model("GraphMap::remove_edge")
def gm_remove_edge(m, r, a, b):
    g = deref(r)
    i = _find_edge(m, g, a, b)
    if i < 0: return NONE()
    return SOME(g.edges.pop(i)[2])


# ---------------------------------------------------------------------------------------------- petgraph::graph::Graph
class PGraph:
    """Graph<N, E, Ty, Ix>: node weights by index, edges [a, b, weight] (a, b concrete indices) in insertion order"""
    __slots__ = ("nodes", "edges")

    def __init__(self):
        self.nodes, self.edges = [], []

    def __repr__(self):
        return f"PGraph(n={len(self.nodes)}, e={[(a, b) for a, b, _ in self.edges]})"


def _nix(i): return Agg("NodeIndex", None, [i])
def _eix(i): return Agg("EdgeIndex", None, [i])


def _ix(m, v):
    v = deref(v)
    i = v.fields[0] if isinstance(v, Agg) else v
    if is_sym(i): raise Unsupported("symbolic petgraph index")
    return i


@model("Graph::new", "Graph::with_capacity", "<Graph as Default>::default", "petgraph::Graph::new", "petgraph::graph::Graph::new")
def pg_new(m, *a): return PGraph()


@model("Graph::add_node")
def pg_add_node(m, r, w):
    g = deref(r)
    g.nodes.append(w)
    return _nix(len(g.nodes) - 1)


@model("Graph::add_edge")
def pg_add_edge(m, r, a, b, w):
    g = deref(r)
    g.edges.append([_ix(m, a), _ix(m, b), w])
    return _eix(len(g.edges) - 1)


M["Graph::node_count"] = lambda m, r: len(deref(r).nodes)
M["Graph::edge_count"] = lambda m, r: len(deref(r).edges)


@model("Graph::externals")
def pg_externals(m, r, d):
    g = deref(r)
    if _is_outgoing(d): out = [i for i in range(len(g.nodes)) if not any(e[0] == i for e in g.edges)]
    else: out = [i for i in range(len(g.nodes)) if not any(e[1] == i for e in g.edges)]
    return m.world.list_iter([_nix(i) for i in out])


@model("Graph::neighbors_directed")
def pg_neighbors_directed(m, r, n, d):
    g, i = deref(r), _ix(m, n)
    # petgraph walks the per-node edge list from the most recently added edge
    if _is_outgoing(d): out = [e[1] for e in reversed(g.edges) if e[0] == i]
    else: out = [e[0] for e in reversed(g.edges) if e[1] == i]
    return m.world.list_iter([_nix(j) for j in out])


@model("Graph::neighbors")
def pg_neighbors(m, r, n):
    g, i = deref(r), _ix(m, n)
    return m.world.list_iter([_nix(e[1]) for e in reversed(g.edges) if e[0] == i])


@model("Graph::node_weight")
def pg_node_weight(m, r, n):
    g, i = deref(r), _ix(m, n)
    return SOME(Ref(g.nodes, i)) if 0 <= i < len(g.nodes) else NONE()


def pg_index(m, r, n):
    g, i = deref(r), _ix(m, n)
    if not 0 <= i < len(g.nodes): raise Panic("Graph::index: node index out of bounds")
    return Ref(g.nodes, i)


M["<Graph as Index<NodeIndex>>::index"] = M["<Graph as Index>::index"] = pg_index


@model("DfsSpace::new", "petgraph::algo::DfsSpace::new")
def dfs_space_new(m, g): return Agg("DfsSpace", None, [])


@model("has_path_connecting", "petgraph::algo::has_path_connecting")
def pg_has_path(m, r, a, b, space=None):
    g = deref(r)
    a, b = _ix(m, a), _ix(m, b)
    seen, todo = {a}, [a]
    while todo:
        x = todo.pop()
        if x == b: return True
        for e in g.edges:
            if e[0] == x and e[1] not in seen:
                seen.add(e[1]); todo.append(e[1])
    return False


@model("Graph::contains_edge")
def pg_contains_edge(m, r, a, b):
    g = deref(r)
    a, b = _ix(m, a), _ix(m, b)
    return any(e[0] == a and e[1] == b for e in g.edges)


@model("Graph::find_edge")
def pg_find_edge(m, r, a, b):
    g = deref(r)
    a, b = _ix(m, a), _ix(m, b)
    for i, e in enumerate(g.edges):
        if e[0] == a and e[1] == b: return SOME(_eix(i))
    return NONE()


# ------------------------------------------------------------------------------- petgraph::visit over a GraphMap
class TopoObj:
    """petgraph::visit::Topo: `tovisit` stack and the visited set"""
    __slots__ = ("tovisit", "visited")

    def __init__(self): self.tovisit, self.visited = [], []


def _filtered(m, f):
    """(graph, edge predicate) of an EdgeFiltered value, or (graph, None)"""
    f = deref(f)
    if isinstance(f, Agg) and f.ty == "EdgeFiltered": return deref(f.fields[0]), f.fields[1]
    return f, None


def _keep(m, pred, e):
    if pred is None: return True
    return m.branch_bool(m.call_value(pred, [TUP(e[0], e[1], Ref(e, 2))]))


@model("EdgeFiltered::from_fn")
def edge_filtered_from_fn(m, g, f): return Agg("EdgeFiltered", None, [g, f])


@model("Topo::new")
def topo_new(m, gr):
    g, pred = _filtered(m, gr)
    t = TopoObj()
    for n in g.nodes:
        if not any(_same(m, e[1], n) and _keep(m, pred, e) for e in g.edges): t.tovisit.append(n)
    return t


@model("Topo::next")
def topo_next(m, tr, gr):
    t = deref(tr)
    g, pred = _filtered(m, gr)
    seen = lambda n: any(_same(m, n, v) for v in t.visited)
    while t.tovisit:
        nix = t.tovisit.pop()
        if seen(nix): continue
        t.visited.append(nix)
        for e in g.edges:
            if not (_same(m, e[0], nix) and _keep(m, pred, e)): continue
            neigh = e[1]
            if all(seen(e2[0]) for e2 in g.edges if _same(m, e2[1], neigh) and _keep(m, pred, e2)): t.tovisit.append(neigh)
        return SOME(nix)
    return NONE()
