"""library models: nom 7 combinators over token slices (`&[TokenWithLocation]`)"""
from values import *

M = {}


def model(*names):
    def deco(f):
        for n in names: M[n] = f
        return f
    return deco


# generic-parameter positions of the captured parsers for nom 7 combinators whose closures are ZSTs
LIB_CLOSURES = {"opt": ("opt", [3]), "tuple": ("tuple", [3]), "map": ("map", [4, 5]), "alt": ("alt", [3]),
                "many0": ("many0", [3]), "many1": ("many1", [3]), "preceded": ("preceded", [4, 5]),
                "terminated": ("terminated", [4, 5]), "pair": ("pair", [4, 5]), "delimited": ("delimited", [5, 6, 7]),
                "separated_list0": ("separated_list0", [5, 4]), "separated_list1": ("separated_list1", [5, 4]),
                "value": ("value", [1, 4]), "cut": ("cut", [3]), "all_consuming": ("all_consuming", [3]),
                "map_res": ("map_res", [5, 6]), "recognize": ("recognize", [3]), "peek": ("peek", [3]),
                "not": ("not", [3])}


def install(world):
    for k, f in list(M.items()):
        world.models[k] = f
        world.models["nom::combinator::" + k] = f
        world.models["nom::sequence::" + k] = f
        world.models["nom::multi::" + k] = f
        world.models["nom::branch::" + k] = f
    for k, v in LIB_CLOSURES.items():
        world.lib_closures[k] = v
        for p in ("nom::combinator::", "nom::sequence::", "nom::multi::", "nom::branch::"):
            world.lib_closures[p + k] = v


def is_ok(r): return r.tag == 0
def err_kind(r): return r.fields[0].tag      # 0 Incomplete 1 Error 2 Failure
def P(f, label): return PyFn(f, label)
def rest_len(x):
    x = deref(x)
    return len(x) if isinstance(x, Slice) else None


@model("opt")
def nom_opt(m, p):
    def run(m, inp):
        r = m.call_value(p, [inp])
        if is_ok(r):
            rest, v = r.fields[0].fields
            return OK(TUP(rest, SOME(v)))
        if err_kind(r) == 1: return OK(TUP(inp, NONE()))
        return r
    return P(run, "opt")


@model("tuple")
def nom_tuple(m, ps):
    def run(m, inp):
        outs = []
        for p in ps.fields:
            r = m.call_value(p, [inp])
            if not is_ok(r): return r
            inp, v = r.fields[0].fields
            outs.append(v)
        return OK(TUP(inp, TUP(*outs)))
    return P(run, "tuple")


M["pair"] = lambda m, a, b: nom_tuple(m, TUP(a, b))


@model("map")
def nom_map(m, p, f):
    def run(m, inp):
        r = m.call_value(p, [inp])
        if not is_ok(r): return r
        rest, v = r.fields[0].fields
        return OK(TUP(rest, m.call_value(f, [v])))
    return P(run, "map")


@model("alt")
def nom_alt(m, ps):
    def run(m, inp):
        last = None
        for p in ps.fields:
            r = m.call_value(p, [inp])
            if is_ok(r) or err_kind(r) != 1: return r
            last = r
        return last
    return P(run, "alt")


@model("many0")
def nom_many0(m, p):
    def run(m, inp):
        acc = VecObj()
        while True:
            r = m.call_value(p, [inp])
            if not is_ok(r):
                return OK(TUP(inp, acc)) if err_kind(r) == 1 else r
            rest, v = r.fields[0].fields
            if rest_len(rest) == rest_len(inp): return ERR(Agg("Err", 1, [Str("many0: no progress")]))
            inp = rest; acc.items.append(v)
    return P(run, "many0")


@model("many1")
def nom_many1(m, p):
    inner = nom_many0(m, p)
    def run(m, inp):
        r = m.call_value(p, [inp])
        if not is_ok(r): return r
        rest, v = r.fields[0].fields
        r2 = inner.f(m, rest)
        if not is_ok(r2): return r2
        rest2, acc = r2.fields[0].fields
        acc.items.insert(0, v)
        return OK(TUP(rest2, acc))
    return P(run, "many1")


def _seq_pick(name, n, k):
    def mk(m, *ps):
        t = nom_tuple(m, TUP(*ps))
        def run(m, inp):
            r = t.f(m, inp)
            if not is_ok(r): return r
            rest, v = r.fields[0].fields
            return OK(TUP(rest, v.fields[k]))
        return P(run, name)
    return mk


M["preceded"] = _seq_pick("preceded", 2, 1)
M["terminated"] = _seq_pick("terminated", 2, 0)
M["delimited"] = _seq_pick("delimited", 3, 1)


@model("value")
def nom_value(m, val, p):
    def run(m, inp):
        r = m.call_value(p, [inp])
        if not is_ok(r): return r
        return OK(TUP(r.fields[0].fields[0], deep_clone(val)))
    return P(run, "value")


@model("cut")
def nom_cut(m, p):
    def run(m, inp):
        r = m.call_value(p, [inp])
        if not is_ok(r) and err_kind(r) == 1:
            return ERR(Agg("Err", 2, r.fields[0].fields))
        return r
    return P(run, "cut")


def sep_list(m, sep, p, at_least_one):
    def run(m, inp):
        acc = VecObj()
        r = m.call_value(p, [inp])
        if not is_ok(r):
            if err_kind(r) == 1 and not at_least_one: return OK(TUP(inp, acc))
            return r
        inp, v = r.fields[0].fields; acc.items.append(v)
        while True:
            r = m.call_value(sep, [inp])
            if not is_ok(r):
                return OK(TUP(inp, acc)) if err_kind(r) == 1 else r
            rest, _ = r.fields[0].fields
            r2 = m.call_value(p, [rest])
            if not is_ok(r2):
                return OK(TUP(inp, acc)) if err_kind(r2) == 1 else r2
            inp, v = r2.fields[0].fields; acc.items.append(v)
    return P(run, "separated_list")


M["separated_list0"] = lambda m, s, p: sep_list(m, s, p, False)
M["separated_list1"] = lambda m, s, p: sep_list(m, s, p, True)


@model("all_consuming")
def nom_all_consuming(m, p):
    def run(m, inp):
        r = m.call_value(p, [inp])
        if not is_ok(r): return r
        rest, v = r.fields[0].fields
        if rest_len(rest) != 0: return ERR(Agg("Err", 1, [Str("eof expected")]))
        return r
    return P(run, "all_consuming")


@model("map_res")
def nom_map_res(m, p, f):
    def run(m, inp):
        r = m.call_value(p, [inp])
        if not is_ok(r): return r
        rest, v = r.fields[0].fields
        r2 = m.call_value(f, [v])
        if r2.tag == 0: return OK(TUP(rest, r2.fields[0]))
        return ERR(Agg("Err", 1, [Str("map_res")]))
    return P(run, "map_res")


@model("peek")
def nom_peek(m, p):
    def run(m, inp):
        r = m.call_value(p, [inp])
        if not is_ok(r): return r
        return OK(TUP(inp, r.fields[0].fields[1]))
    return P(run, "peek")
