"""mirsym prototype v2: parser for `-Zunpretty=mir -Zverbose-internals` text."""
import re, functools

OPEN, CLOSE = "([{", ")]}"

def split_top(s, sep=","):
    """Split at `sep` on nesting depth 0 of ()[]{} and <> (type brackets); string literals respected."""
    out, depth, cur, i, n, inq = [], 0, [], 0, len(s), False
    while i < n:
        c = s[i]
        if inq:
            cur.append(c)
            if c == "\\":
                cur.append(s[i + 1]); i += 1
            elif c == '"':
                inq = False
        elif c == '"':
            inq = True; cur.append(c)
        elif c in OPEN or c == "<":
            depth += 1; cur.append(c)
        elif c in CLOSE:
            depth -= 1; cur.append(c)
        elif c == ">":
            if i > 0 and s[i - 1] in "-=":
                cur.append(c)
            else:
                depth -= 1; cur.append(c)
        elif c == sep and depth == 0:
            out.append("".join(cur).strip()); cur = []
        else:
            cur.append(c)
        i += 1
    t = "".join(cur).strip()
    if t:
        out.append(t)
    return out

def match_close(s, i):
    """s[i] is an opening bracket of ([{ ; return index of its partner (only ()[]{} are counted)."""
    d = 0
    for j in range(i, len(s)):
        c = s[j]
        if c in OPEN: d += 1
        elif c in CLOSE:
            d -= 1
            if d == 0: return j
    raise ValueError("unbalanced: " + s[i:i + 80])

def match_open_back(s, j):
    d = 0
    for i in range(j, -1, -1):
        c = s[i]
        if c in CLOSE: d += 1
        elif c in OPEN:
            d -= 1
            if d == 0: return i
    raise ValueError("unbalanced back")

@functools.lru_cache(maxsize=None)
def strip_generics(s):
    """remove <...> groups (type arguments) and lifetimes; keeps a leading `<T as Trait>` head untouched by caller."""
    out, d, i = [], 0, 0
    while i < len(s):
        c = s[i]
        if c == "<":
            d += 1
        elif c == ">" and d > 0 and s[i - 1] not in "-=":
            d -= 1; i += 1; continue
        if d == 0:
            out.append(c)
        i += 1
    r = "".join(out)
    while "::::" in r:
        r = r.replace("::::", "::")
    return r.rstrip(":")

@functools.lru_cache(maxsize=None)
def base_name(ty):
    if ty is None: return None
    t = ty.strip()
    while True:
        t2 = re.sub(r"^&'[\w{}]+ (?:mut )?|^&(?:mut )?|^\*(?:const|mut) ", "", t).strip()
        if t2 == t: break
        t = t2
    if t.startswith("{"):
        return "{closure}"
    if t.startswith("["):
        return "[]"
    t = strip_generics(t)
    return t.split("::")[-1].strip()

# ------------------------------------------------------------------ module index
class Fn:
    __slots__ = ("name", "locals", "blocks", "argc", "ret_ty", "parsed", "allocs")

class Module:
    def __init__(self, path):
        self.text = open(path).read()
        self.index = {}
        for m in re.finditer(r"^(fn|const|static|promoted) (.*)$", self.text, re.M):
            line = m.group(2)
            if m.group(1) == "fn":
                k = line.find("(_1: ")
                if k < 0: k = line.find("() ")
                name = line[:k]
            else:
                d = 0; name = line
                for i, ch in enumerate(line):
                    if ch == "<": d += 1
                    elif ch == ">" and line[i - 1] not in "-=": d -= 1
                    elif d == 0 and line.startswith(": ", i):
                        name = line[:i]; break
            self.index.setdefault(name, []).append(m.start())
        self.allocs = {}
        for m in re.finditer(r"^(alloc\d+) \(size: (\d+), align: \d+\) \{\n((?:.*\n)*?)\}", self.text, re.M):
            if m.group(1) in self.allocs: continue
            bs = bytearray()
            for ln in m.group(3).split("\n"):
                mm = re.match(r"\s*(?:0x[0-9a-f]+ │ )?((?:[0-9a-f_╾─╼]{2} ?)+)│", ln)
                if mm:
                    for h in mm.group(1).split():
                        if re.match(r"^[0-9a-f]{2}$", h): bs.append(int(h, 16))
            self.allocs[m.group(1)] = bytes(bs[:int(m.group(2))])
        self.cache = {}

    def lookup(self, name):
        """resolve a possibly longer module path to an indexed item name (suffix match on `::` boundaries)"""
        n = name
        while True:
            if n in self.index: return n
            if "::" not in n: return None
            n = n.split("::", 1)[1]

    def get(self, name):
        if name in self.cache: return self.cache[name]
        if name not in self.index:
            r = self.lookup(name)
            if r is None: raise KeyError(name)
            name = r
            if name in self.cache: return self.cache[name]
        start = self.index[name][0]
        eol = self.text.index("\n", start)
        line = self.text[start:eol]
        if not line.endswith("{"):            # one-line const item:  const NAME: TY = const VALUE;
            f = Fn(); f.name = name; f.locals = {}; f.blocks = {}; f.parsed = {}; f.argc = 0
            f.ret_ty = ("oneline", line.split(" = ", 1)[1].rstrip(";"))
            self.cache[name] = f
            return f
        end = self.text.index("\n}\n", start) + 2
        f = parse_fn(self.text[start:end])
        f.name = name
        self.cache[name] = f
        return f

def parse_fn(text):
    lines = text.split("\n")
    f = Fn()
    hdr = lines[0]
    f.locals, f.blocks, f.parsed = {}, {}, {}
    if hdr.startswith("fn "):
        k = hdr.find("(_1: ")
        if k < 0:
            k = hdr.find("() ")
        j = match_close(hdr, k)
        args = split_top(hdr[k + 1:j])
        f.argc = len(args)
        for a in args:
            nm, ty = a.split(": ", 1)
            f.locals[nm] = ty
        rest = hdr[j + 1:].strip()
        f.ret_ty = rest[3:-2].strip() if rest.startswith("->") else "()"
    else:
        f.argc = 0
        f.ret_ty = hdr.split(": ", 1)[1].rsplit(" = {", 1)[0]
    cur = None
    for ln in lines[1:]:
        s = ln.strip()
        if cur is None:
            m = re.match(r"let (?:mut )?(_\d+): (.*);$", s)
            if m:
                f.locals[m.group(1)] = m.group(2); continue
        m = re.match(r"(bb\d+)( \(cleanup\))?: \{$", s)
        if m:
            cur = []; f.blocks[m.group(1)] = cur; continue
        if s == "}" and cur is not None and ln.startswith("    }"):
            cur = None; continue
        if cur is not None and s:
            cur.append(s)
    return f

# ------------------------------------------------------------------ statement grammar
def parse_place(s):
    s = s.strip()
    toks = []
    def rec(s):
        s = s.strip()
        if s.startswith("(") and match_close(s, 0) == len(s) - 1:
            inner = s[1:-1].strip()
            if inner.startswith("*"):
                rec(inner[1:]); toks.append(("deref",)); return
            # `P as Variant` (downcast) — only when the part before is a balanced place
            m = re.match(r"^(.*) as (\w+)$", inner)
            if m and balanced(m.group(1)) and is_place_text(m.group(1)):
                rec(m.group(1)); toks.append(("downcast", m.group(2))); return
            k = top_level_colon(inner)
            body = inner[:k]
            d = body.rfind(".")
            rec(body[:d]); toks.append(("field", int(body[d + 1:]), inner[k + 2:].strip())); return
        if s.endswith("]"):
            i = match_open_back(s, len(s) - 1)
            ix = s[i + 1:-1].strip()
            rec(s[:i])
            mm = re.match(r"^(-?)(\d+) of \d+$", ix)
            if mm: toks.append(("constindex", int(mm.group(2)), mm.group(1) == "-"))
            elif ":" in ix:
                a, b = ix.split(":")
                toks.append(("subslice", int(a or 0), b.strip()))
            else: toks.append(("index", ix))
            return
        if s.startswith("*"):
            rec(s[1:]); toks.append(("deref",)); return
        if re.match(r"^_\d+$", s):
            toks.append(("local", s)); return
        raise SyntaxError("place " + s)
    rec(s)
    return toks

def is_place_text(s):
    s = s.strip()
    if re.match(r"^_\d+$", s): return True
    if s.startswith("*"): return is_place_text(s[1:])
    if s.startswith("(") and match_close(s, 0) == len(s) - 1: return True
    if s.endswith("]"): return True
    return False

def balanced(s):
    d = 0
    for c in s:
        if c in OPEN: d += 1
        elif c in CLOSE:
            d -= 1
            if d < 0: return False
    return d == 0

def top_level_colon(s):
    d = 0
    for i, c in enumerate(s):
        if c in OPEN: d += 1
        elif c in CLOSE: d -= 1
        elif c == ":" and d == 0 and s[i + 1:i + 2] == " " and s[i - 1] != ":":
            return i
    raise SyntaxError("no field colon in " + s)

def parse_const(c):
    c = c.strip()
    m = re.match(r"^ConstValue\(Scalar\(0x([0-9a-f]+)\): (.+)\)$", c)
    if m: return ("scalar", int(m.group(1), 16), m.group(2))
    m = re.match(r"^ConstValue\(Slice \{ alloc_id: (alloc\d+), meta: (\d+) \}: (.+)\)$", c)
    if m: return ("slice", m.group(1), int(m.group(2)), m.group(3))
    m = re.match(r"^ConstValue\(Scalar\((alloc\d+)\): (.+)\)$", c)
    if m: return ("allocref", m.group(1), m.group(2))
    m = re.match(r"^ValTree\(Branch\(\[(.*)\]\): &'\{erased\} str\)$", c)
    if m:
        bs = bytes(int(h, 16) for h in re.findall(r"Leaf\(0x([0-9a-f]+)\): u8", m.group(1)))
        return ("strlit", bs.decode("utf8", "replace"))
    m = re.match(r"^ValTree\(Leaf\(0x([0-9a-f]+)\): (\w+)\)$", c)
    if m: return ("scalar", int(m.group(1), 16), m.group(2))
    if c.startswith("ConstValue(ZeroSized: "):
        return ("zst", c[len("ConstValue(ZeroSized: "):-1].strip())
    return ("named", c)

def parse_operand(s):
    s = s.strip()
    if s.startswith("no_retag "): s = s[9:]
    if s.startswith("copy "): return ("copy", parse_place(s[5:]))
    if s.startswith("move "): return ("move", parse_place(s[5:]))
    if s.startswith("const "): return ("const", parse_const(s[6:]))
    if s.startswith("ConstValue("): return ("const", parse_const(s))
    raise SyntaxError("operand " + s)

BINOPS = {"Add", "Sub", "Mul", "Div", "Rem", "BitXor", "BitAnd", "BitOr", "Shl", "Shr", "Eq", "Lt", "Le", "Ne", "Ge",
          "Gt", "Cmp", "Offset", "AddWithOverflow", "SubWithOverflow", "MulWithOverflow", "AddUnchecked",
          "SubUnchecked", "MulUnchecked", "ShlUnchecked", "ShrUnchecked"}
UNOPS = {"Not", "Neg", "PtrMetadata"}

def parse_rvalue(s):
    s = s.strip()
    if s.startswith("no_retag "): s = s[9:]
    m = re.match(r"^(\w+)\((.*)\)$", s)
    if m and m.group(1) in BINOPS:
        a, b = split_top(m.group(2))
        return ("binop", m.group(1), parse_operand(a), parse_operand(b))
    if m and m.group(1) in UNOPS:
        return ("unop", m.group(1), parse_operand(m.group(2)))
    if m and m.group(1) == "discriminant":
        return ("discriminant", parse_place(m.group(2)))
    if m and m.group(1) == "Len":
        return ("len", parse_place(m.group(2)))
    if m and m.group(1) == "CopyForDeref":
        return ("use", ("copy", parse_place(m.group(2))))
    if s.startswith("&"):
        t = re.sub(r"^&'\{erased\} |^&raw (?:const|mut) |^&", "", s)
        if t.startswith("mut "): t = t[4:]
        if t.startswith("fake "): t = t[5:]
        return ("ref", parse_place(t))
    if s.startswith(("copy ", "move ", "const ")):
        m2 = re.match(r"^(.*) as (.+) \((\w+)(\(.*\))?\)$", s)
        if m2 and balanced(m2.group(1)):
            return ("cast", parse_operand(m2.group(1)), m2.group(2), m2.group(3))
        return ("use", parse_operand(s))
    if s.startswith("(") and match_close(s, 0) == len(s) - 1:
        return ("tuple", [parse_operand(a) for a in split_top(s[1:-1])])
    if s.startswith("[") and match_close(s, 0) == len(s) - 1:
        inner = s[1:-1]
        parts = split_top(inner, ";")
        if len(parts) == 2:
            return ("repeat", parse_operand(parts[0]), parts[1])
        return ("array", [parse_operand(a) for a in split_top(inner)])
    if s.startswith("{"):       # closure aggregate
        j = match_close(s, 0)
        head = s[1:j]
        rest = s[j + 1:].strip()
        caps = []
        if rest.startswith("{"):
            for it in split_top(rest[1:-1]):
                k, v = it.split(": ", 1)
                caps.append((k.strip(), parse_operand(v)))
        return ("closure", head.split(" closure_kind_ty")[0] if head.count("{") == head.count("}") and "closure_kind_ty" in head else head, caps)
    if s.endswith("}"):
        i = match_open_back(s, len(s) - 1)
        path = s[:i].strip()
        fields = []
        for it in split_top(s[i + 1:-1]):
            k, v = it.split(": ", 1)
            fields.append((k.strip(), parse_operand(v)))
        return ("struct", path, fields)
    if s.endswith(")"):
        i = match_open_back(s, len(s) - 1)
        path = s[:i].strip()
        return ("variant", path, [parse_operand(a) for a in split_top(s[i + 1:-1])])
    return ("variant", s, [])

NOPS = ("StorageLive", "StorageDead", "nop", "FakeRead", "PlaceMention", "Retag", "ConstEvalCounter", "Coverage",
        "Deinit", "AscribeUserType", "BackwardIncompatibleDropHint")

def parse_stmt(st):
    if st.startswith(NOPS): return ("nop",)
    st = st.rstrip(";")
    m = re.match(r"^discriminant\((.*)\) = (\d+)$", st)
    if m: return ("setdisc", parse_place(m.group(1)), int(m.group(2)))
    lhs, rhs = st.split(" = ", 1)
    return ("assign", parse_place(lhs), parse_rvalue(rhs))

def parse_term(t):
    t = t.rstrip(";")
    if t == "return": return ("return",)
    if t == "unreachable": return ("unreachable",)
    if t.startswith("resume") or t.startswith("terminate"): return ("resume",)
    m = re.match(r"^goto -> (bb\d+)$", t)
    if m: return ("goto", m.group(1))
    m = re.match(r"^drop\(.*\) -> \[return: (bb\d+)", t)
    if m: return ("goto", m.group(1))
    if t.startswith("switchInt("):
        j = match_close(t, 9)
        op = parse_operand(t[10:j])
        arms = t[t.index("[", j) + 1:-1]
        out, other = [], None
        for a in split_top(arms):
            k, tgt = a.split(": ")
            if k == "otherwise": other = tgt
            else: out.append((int(k), tgt))
        return ("switch", op, out, other)
    if t.startswith("assert("):
        j = match_close(t, 6)
        parts = split_top(t[7:j])
        cond = parts[0]
        neg = cond.startswith("!")
        m = re.search(r"\[success: (bb\d+)", t[j:])
        return ("assert", parse_operand(cond[1:] if neg else cond), not neg, parts[1][:60], m.group(1))
    # call:  DEST = CALLEE(ARGS) -> [return: bbN, ...]  |  -> unwind ...
    m = re.match(r"^(.*?) = (.*)\) -> (?:\[return: (bb\d+).*\]|unwind.*)$", t)
    if m:
        dest, rest, ret = m.group(1), m.group(2) + ")", m.group(3)
        i = match_open_back(rest, len(rest) - 1)
        args = [parse_operand(a) for a in split_top(rest[i + 1:-1])]
        callee = rest[:i].strip()
        if callee.startswith("ConstValue("):
            callee = ("const", parse_const(callee))
        else:
            callee = parse_operand(callee)
        return ("call", parse_place(dest), callee, args, ret)
    raise SyntaxError("terminator " + t[:200])
