"""library models: core / alloc / std (non-iterator part), internment, once_cell"""
import z3
from values import *
from mirparse import base_name, strip_generics, split_top

M = {}
G = {}


def model(*names):
    def deco(f):
        for n in names: M[n] = f
        return f
    return deco


def generic(*names):
    def deco(f):
        for n in names: G[n] = f
        return f
    return deco


def _forcing(f):
    """Option / Result method models read `.tag`: a solver-chosen tag (checked arithmetic, try_from) is decided first, by forking"""
    wants = getattr(f, "wants_path", False)

    def g(m, *args):
        for a in (args[1:3] if wants else args[0:2]):
            v = deref(a) if isinstance(a, (Ref, Agg)) else None
            if isinstance(v, Agg) and v.ty in ("Option", "Result") and v.tag is None and v.symtag is not None: m.force_tag(v)
        return f(m, *args)
    g.wants_path = wants
    return g


def install(world):
    world.models.update(M)
    world.generic_models.update(G)
    world.ext_structs.update({"Complex": ["re", "im"], "Range": ["start", "end"], "RangeInclusive": ["start", "end", "exhausted"],
                              "LocatedSpan": ["offset", "line", "fragment", "extra"]})


# ------------------------------------------------------------------ equality
def and_all(conds):
    cs = []
    for c in conds:
        if c is False: return False
        if c is True: continue
        cs.append(c)
    if not cs: return True
    return z3.And(cs) if len(cs) > 1 else cs[0]


def or_any(conds):
    cs = []
    for c in conds:
        if c is True: return True
        if c is False: continue
        cs.append(c)
    if not cs: return False
    return z3.Or(cs) if len(cs) > 1 else cs[0]


def neg(c):
    if c is True: return False
    if c is False: return True
    return z3.Not(c)


def str_eq(m, a, b):
    a, b = deref(a), deref(b)
    if isinstance(a, str): a = Str(a)
    if isinstance(b, str): b = Str(b)
    if not isinstance(a, Str) or not isinstance(b, Str): raise Unsupported(f"str_eq {a!r} {b!r}")
    if a.s is not None and b.s is not None: return a.s == b.s

    def idx_eq(sv, conc):
        hits = [i for i, x in enumerate(sv.alpha) if x == conc]
        if not hits: return False
        return or_any([sv.sym == i for i in hits])
    if a.s is None and b.s is None:
        if a.alpha is b.alpha or a.alpha == b.alpha:
            if len(set(a.alpha)) == len(a.alpha): return a.sym == b.sym
        return or_any([z3.And(a.sym == i, b.sym == j) for i, x in enumerate(a.alpha) for j, y in enumerate(b.alpha) if x == y])
    return idx_eq(a, b.s) if a.s is None else idx_eq(b, a.s)


def val_eq(m, a, b):
    """PartialEq::eq: interpreted for hand-written impls, structural for derived impls and library types.
    Returns python bool or z3 Bool."""
    a, b = deref(a), deref(b)
    if isinstance(a, (Str, str)) or isinstance(b, (Str, str)): return str_eq(m, a, b)
    if isinstance(a, Agg):
        if not isinstance(b, Agg): return False
        if a.ty in ("ArcIntern", "Arc", "Rc", "Box") and a.ty == b.ty:
            if a is b: return True
            if a.ty == "ArcIntern":
                ids = m.__dict__.get("_interned_ids")
                if ids and id(a) in ids and id(b) in ids: return False          # two distinct interned objects hold different values
            return val_eq(m, a.fields[0], b.fields[0])
        if a.ty not in ("tuple", "Option", "Result") and m.world.is_derived(a.ty, "PartialEq") is False:
            idx = m.world.impl_index()
            c = idx.get((a.ty, "PartialEq", "eq"))
            if c:
                r = m.run_fn(m.mod.get(c[0]), [Ref([a], 0), Ref([b], 0)])
                return r
        if (a.tag is None and a.symtag is not None) or (b.tag is None and b.symtag is not None):
            # both symbolic: compare tags symbolically when payload-free, otherwise force
            if a.tag is None and a.symtag is not None and a.alts is not None and not any(a.alts.values()) and \
               b.tag is None and b.symtag is not None:
                return a.symtag == b.symtag
            if a.tag is None and a.symtag is not None and a.alts is not None and not any(a.alts.values()) and b.tag is not None:
                return a.symtag == b.tag
            if b.tag is None and b.symtag is not None and b.alts is not None and not any(b.alts.values()) and a.tag is not None:
                return b.symtag == a.tag
            m.force_tag(a); m.force_tag(b)
        if a.tag != b.tag: return False
        if a.fields is None or b.fields is None: return a.fields is b.fields
        if len(a.fields) != len(b.fields): return False
        return and_all(val_eq(m, x, y) for x, y in zip(a.fields, b.fields))
    if isinstance(a, BoxObj): return val_eq(m, a.fields[0], b.fields[0] if isinstance(b, BoxObj) else b)
    if isinstance(b, BoxObj): return val_eq(m, a, b.fields[0])
    if isinstance(a, (VecObj, Slice)):
        xs = a.items if isinstance(a, VecObj) else a.vec.items[a.lo:a.hi]
        ys = b.items if isinstance(b, VecObj) else b.vec.items[b.lo:b.hi]
        if len(xs) != len(ys): return False
        return and_all(val_eq(m, x, y) for x, y in zip(xs, ys))
    if isinstance(a, SetObj):
        if len(a.items) != len(b.items): return False
        # set equality: every element of a is in b (sizes equal, elements distinct)
        return and_all(or_any(val_eq(m, x[0], y[0]) for y in b.items) for x in a.items)
    if isinstance(a, MapObj):
        if len(a.items) != len(b.items): return False
        if a.kind == "index" or a.kind == "btree":
            # IndexMap == compares as maps (order-insensitive) as well
            pass
        return and_all(or_any(and_all([val_eq(m, x[0], y[0]), val_eq(m, x[1], y[1])]) for y in b.items) for x in a.items)
    if isinstance(a, float) or isinstance(b, float):
        if is_sym(a) or is_sym(b):
            A = a if is_sym(a) else z3.FPVal(a, z3.Float64()); B = b if is_sym(b) else z3.FPVal(b, z3.Float64())
            return z3.fpEQ(A, B)
        return a == b
    if is_sym(a) and z3.is_fp(a): return z3.fpEQ(a, b if is_sym(b) else z3.FPVal(b, z3.Float64()))
    if is_sym(a) or is_sym(b):
        if (is_sym(a) and z3.is_bv(a)) and not is_sym(b): b = z3.BitVecVal(b, a.size())
        if (is_sym(b) and z3.is_bv(b)) and not is_sym(a): a = z3.BitVecVal(a, b.size())
        return a == b
    return a == b


def eq_model(m, a, b): return val_eq(m, a, b)
def ne_model(m, a, b): return neg(val_eq(m, a, b))


@generic("<_ as PartialEq>::eq")
def g_eq(m, path, a, b):
    ra = deref(a)
    if isinstance(ra, Agg) and ra.ty not in ("tuple", "Option", "Result", "ArcIntern", "Box", "Complex") and m.world.is_derived(ra.ty, "PartialEq") is False:
        return NotImplemented
    return val_eq(m, a, b)


@generic("<_ as PartialEq>::ne")
def g_ne(m, path, a, b):
    return neg(val_eq(m, a, b))


# ------------------------------------------------------------------ clone / default / conversions
@generic("<_ as Clone>::clone")
def g_clone(m, path, r):
    v = deref(r)
    if isinstance(v, Agg) and m.world.is_derived(v.ty, "Clone") is False:
        return NotImplemented
    return deep_clone(v)


@generic("<_ as Clone>::clone_from")
def g_clone_from(m, path, dst, src):
    v = deref(src)
    if isinstance(v, Agg) and m.world.is_derived(v.ty, "Clone") is False:
        return NotImplemented
    while isinstance(dst.get(), Ref): dst = dst.get()
    dst.set(deep_clone(v))
    return UNIT


@generic("<_ as ToOwned>::to_owned")
def g_to_owned(m, path, r):
    v = deref(r)
    if isinstance(v, Slice): return VecObj([deep_clone(x) for x in v.vec.items[v.lo:v.hi]])
    return deep_clone(v)


@generic("<_ as ToString>::to_string")
def g_to_string(m, path, r):
    v = deref(r)
    if isinstance(v, Str): return v
    return NotImplemented


M["std::slice::to_vec"] = M["slice::to_vec"] = lambda m, r: g_to_owned(m, None, r)
M["std::slice::into_vec"] = M["slice::into_vec"] = lambda m, b: (b.fields[0] if isinstance(b, BoxObj) else b)


@generic("<_ as Default>::default")
def g_default(m, path):
    from machine import find_as
    p = path.strip()
    ty = p[1:find_as(p)]
    return default_of(m, ty)


def default_of(m, ty):
    b = base_name(ty)
    if b in ("Vec", "VecDeque"): return VecObj()
    if b == "String": return Str("")
    if b in ("HashMap", "IndexMap", "BTreeMap"):
        mp = MapObj({"HashMap": "hash", "IndexMap": "index", "BTreeMap": "btree"}[b]); mp.uid = m.new_uid(); return mp
    if b in ("HashSet", "IndexSet", "BTreeSet"):
        s = SetObj({"HashSet": "hash", "IndexSet": "index", "BTreeSet": "btree"}[b]); s.uid = m.new_uid(); return s
    if b == "Option": return NONE()
    if b in ("u8", "u16", "u32", "u64", "usize", "i32", "i64", "isize"): return 0
    if b == "bool": return False
    if b == "f64": return 0.0
    if b in m.td.structs:
        idx = m.world.impl_index()
        c = idx.get((b, "Default", "default"))
        if c and m.world.is_derived(b, "Default") is False:
            fn = m.mod.get(c[0])
            return m.run_fn(fn, [], m.world.call_subst(fn.name, ty) or None)
        if c or True:
            return Agg(b, None, [default_of(m, t) for t in m.td.struct_types[b]])
    raise Unsupported("default of " + ty)


@generic("<_ as From>::from")
def g_from(m, path, v):
    from machine import find_as, find_trait_end
    p = path.strip()
    i = find_as(p)
    ty = base_name(p[1:i])
    rest = p[i + 4:]
    j = find_trait_end(rest)
    src = rest[rest.index("<") + 1:j - 0] if "<" in rest[:j] else ""
    srcb = base_name(src.rstrip(">")) if src else None
    dv = deref(v)
    if ty == "String" and isinstance(dv, Str): return dv
    if ty in ("HashSet", "IndexSet", "BTreeSet", "HashMap", "IndexMap", "BTreeMap") and isinstance(dv, (VecObj, Slice)):
        return m.world.collect_list(m, list(as_list(dv)), ty)
    if ty == "Vec" and isinstance(dv, (VecObj, Slice)):
        return VecObj(list(dv.items)) if isinstance(dv, VecObj) else VecObj(dv.vec.items[dv.lo:dv.hi])
    if ty == srcb and ty is not None and (ty, "From") not in m.world.impl_pairs(): return v       # reflexive From<T> for T
    if ty == "Box": return BoxObj(v)
    if ty == "ArcIntern": return Agg("ArcIntern", None, [v])
    from machine import INT_BITS
    if ty in INT_BITS and ty != "bool" and srcb in INT_BITS:
        if srcb == "bool":
            if is_sym(dv): return z3.If(dv, z3.BitVecVal(1, INT_BITS[ty]), z3.BitVecVal(0, INT_BITS[ty]))
            return int(bool(dv))
        return m.cast(dv, srcb, ty, "IntToInt")
    if ty in ("f64", "f32") and srcb in INT_BITS and srcb != "bool": return m.cast(dv, srcb, ty, "IntToFloat")
    if ty in ("f64",) and isinstance(dv, (int, float)) and not isinstance(dv, bool): return float(dv)
    if ty == "Complex": return Agg("Complex", None, [v, 0.0])
    if ty == "Arc" or ty == "Rc": return Agg(ty, None, [v])
    return NotImplemented


@generic("<_ as Into>::into")
def g_into(m, path, v):
    # `impl<T, U: From<T>> Into<U> for T`: find the target type from the printed path
    from machine import find_as, find_trait_end
    p = path.strip()
    i = find_as(p)
    src = p[1:i]
    rest = p[i + 4:]
    j = find_trait_end(rest)
    tgt = rest[rest.index("<") + 1:j - 1]
    tb, sb = base_name(tgt), base_name(src)
    if tb == sb: return v
    return m.call_path(f"<{tgt} as From<{src}>>::from", [v])


@generic("<_ as AsRef>::as_ref", "<_ as Borrow>::borrow", "<_ as AsMut>::as_mut", "<_ as BorrowMut>::borrow_mut")
def g_as_ref(m, path, r):
    v = deref(r)
    if isinstance(v, VecObj): return Slice(v, 0, len(v.items))
    if isinstance(v, (Str, Slice)): return v
    if isinstance(v, BoxObj): return Ref(v.fields, 0)
    if isinstance(v, Agg) and v.ty in ("ArcIntern", "Arc", "Rc") and path.lstrip().startswith("<") and base_name(path.lstrip()[1:].split(" as ")[0]) == v.ty:
        return Ref(v.fields, 0)          # `<ArcIntern<T> as AsRef<T>>::as_ref`: the pointee
    return r


@generic("<_ as Deref>::deref", "<_ as DerefMut>::deref_mut")
def g_deref(m, path, r):
    v = deref(r)
    if isinstance(v, VecObj): return Slice(v, 0, len(v.items))
    if isinstance(v, Str): return v
    if isinstance(v, BoxObj): return Ref(v.fields, 0)
    if isinstance(v, Agg) and v.ty in ("ArcIntern", "Arc", "Rc", "Lazy"): return Ref(v.fields, 0)
    return NotImplemented


@generic("<_ as Drop>::drop")
def g_drop(m, path, r): return UNIT


@generic("<_ as FnMut>::call_mut", "<_ as Fn>::call", "<_ as FnOnce>::call_once")
def g_call(m, path, f, argtuple):
    return m.call_value(f, list(argtuple.fields))


# ------------------------------------------------------------------ mem / ptr / misc
def _default_like(v):
    v = deref(v)
    if isinstance(v, VecObj): return VecObj()
    if isinstance(v, Str): return Str("")
    if isinstance(v, SetObj): return SetObj(v.kind)
    if isinstance(v, MapObj): return MapObj(v.kind)
    if isinstance(v, Agg) and v.ty == "Option": return NONE()
    if isinstance(v, bool): return False
    if isinstance(v, int): return 0
    raise Unsupported(f"mem::take of {v!r}")


@model("std::mem::take")
def mem_take(m, r):
    old = r.get()
    if isinstance(old, Agg) and old.ty not in ("Option",):
        r.set(default_of(m, old.ty))
    else:
        r.set(_default_like(old))
    return old


@model("std::mem::replace")
def mem_replace(m, r, v):
    old = r.get(); r.set(v); return old


@model("std::mem::swap")
def mem_swap(m, a, b):
    x, y = a.get(), b.get(); a.set(y); b.set(x); return UNIT


M["std::mem::drop"] = M["drop"] = lambda m, v: UNIT
M["std::mem::forget"] = lambda m, v: UNIT
M["std::convert::identity"] = M["identity"] = lambda m, v: v
M["std::hint::must_use"] = M["must_use"] = lambda m, v: v
M["std::intrinsics::cold_path"] = M["cold_path"] = lambda m: UNIT
M["std::hint::black_box"] = lambda m, v: v
def ptr_eq(m, a, b):
    """pointer identity: same storage slot (or the same heap object)"""
    while isinstance(a, Ref) and isinstance(a.get(), Ref): a = a.get()
    while isinstance(b, Ref) and isinstance(b.get(), Ref): b = b.get()
    if isinstance(a, Ref) and isinstance(b, Ref): return a.cont is b.cont and a.key == b.key
    return a is b


M["std::ptr::eq"] = M["core::ptr::eq"] = M["ptr::eq"] = ptr_eq
M["Box::new"] = lambda m, v: BoxObj(v)
M["Arc::new"] = lambda m, v: Agg("Arc", None, [v])
M["Rc::new"] = lambda m, v: Agg("Rc", None, [v])
M["Arc::as_ptr"] = lambda m, r: id(deref(r))
M["Arc::ptr_eq"] = lambda m, a, b: deref(a) is deref(b)


@model("Box::new_uninit")
def box_new_uninit(m): return BoxObj(None)


@model("std::boxed::box_assume_init_into_vec_unsafe")
def box_into_vec(m, b):
    v = b.fields[0] if isinstance(b, BoxObj) else b
    return v if isinstance(v, VecObj) else VecObj(list(v.fields))


M["MaybeUninit::write"] = lambda m, r, v: (r.set(v), r)[1]
M["MaybeUninit::as_mut_ptr"] = lambda m, r: r


@model("std::ptr::write", "core::ptr::write")
def ptr_write(m, p, v):
    p.set(v); return UNIT


# ------------------------------------------------------------------ internment / once_cell
def canon(v):
    """hashable structural key of a fully concrete value, None if anything in it is symbolic"""
    if isinstance(v, Ref): return canon(v.get())
    if isinstance(v, Agg):
        if v.tag is None and v.symtag is not None: return None
        if v.fields is None: return None
        ks = []
        for x in v.fields:
            k = canon(x)
            if k is None: return None
            ks.append(k)
        return (v.ty, v.tag, tuple(ks))
    if isinstance(v, Str): return ("s", v.s) if v.s is not None else None
    if isinstance(v, bool) or isinstance(v, int): return ("i", v)
    if isinstance(v, float): return ("f", "nan") if v != v else ("f", v)
    if isinstance(v, str): return ("s", v)
    if isinstance(v, VecObj):
        ks = [canon(x) for x in v.items]
        return None if any(k is None for k in ks) else ("v", tuple(ks))
    if isinstance(v, BoxObj): return canon(v.fields[0])
    return None


@model("internment::ArcIntern::new", "ArcIntern::new")
def arcintern_new(m, v):
    """concrete values are really interned (one object per distinct value, equality by identity), as in the library"""
    k = canon(v)
    if k is None: return Agg("ArcIntern", None, [v])
    tbl = m.__dict__.setdefault("_intern_table", {})
    hit = tbl.get(k)
    if hit is None:
        hit = tbl[k] = Agg("ArcIntern", None, [v])
        m.__dict__.setdefault("_interned_ids", set()).add(id(hit))
    return hit


M["ArcIntern::from_ref"] = lambda m, r: Agg("ArcIntern", None, [deep_clone(deref(r))])
M["internment::ArcIntern::from_ref"] = M["ArcIntern::from_ref"]


@model("once_cell::sync::Lazy::new", "Lazy::new", "LazyLock::new", "std::sync::LazyLock::new")
def lazy_new(m, f): return Agg("Lazy", None, [None, f])


@model("once_cell::sync::Lazy::force", "Lazy::force", "LazyLock::force", "std::sync::LazyLock::force")
def lazy_force(m, r):
    l = deref(r)
    if l.fields[0] is None:
        l.fields[0] = m.call_value(l.fields[1], [])
    return Ref(l.fields, 0)


@generic("<_ as Deref>::deref_lazy")
def _unused(m, path, r): return NotImplemented


# ------------------------------------------------------------------ Option / Result
def is_tag(v, t):
    v = deref(v)
    return v.tag == t


M["std::option::Option::is_some"] = lambda m, r: deref(r).tag == 1
M["std::option::Option::is_none"] = lambda m, r: deref(r).tag == 0
M["std::result::Result::is_ok"] = lambda m, r: deref(r).tag == 0
M["std::result::Result::is_err"] = lambda m, r: deref(r).tag == 1
M["std::option::Option::take"] = lambda m, r: (lambda old: (r.set(NONE()), old)[1])(r.get())
M["std::option::Option::replace"] = lambda m, r, v: (lambda old: (r.set(SOME(v)), old)[1])(r.get())
M["std::option::Option::insert"] = lambda m, r, v: (r.set(SOME(v)), Ref(r.get().fields, 0))[1]
M["std::option::Option::map"] = lambda m, o, f: SOME(m.call_value(f, [o.fields[0]])) if o.tag == 1 else NONE()
M["std::option::Option::map_or"] = lambda m, o, d, f: m.call_value(f, [o.fields[0]]) if o.tag == 1 else d
M["std::option::Option::map_or_else"] = lambda m, o, d, f: m.call_value(f, [o.fields[0]]) if o.tag == 1 else m.call_value(d, [])
M["std::option::Option::is_some_and"] = lambda m, o, f: m.call_value(f, [o.fields[0]]) if o.tag == 1 else False
M["std::option::Option::is_none_or"] = lambda m, o, f: m.call_value(f, [o.fields[0]]) if o.tag == 1 else True
M["std::option::Option::unwrap_or"] = lambda m, o, d: o.fields[0] if o.tag == 1 else d
M["std::option::Option::unwrap_or_else"] = lambda m, o, f: o.fields[0] if o.tag == 1 else m.call_value(f, [])
M["std::option::Option::ok_or"] = lambda m, o, e: OK(o.fields[0]) if o.tag == 1 else ERR(e)
M["std::option::Option::ok_or_else"] = lambda m, o, f: OK(o.fields[0]) if o.tag == 1 else ERR(m.call_value(f, []))
M["std::option::Option::and_then"] = lambda m, o, f: m.call_value(f, [o.fields[0]]) if o.tag == 1 else o
M["std::option::Option::or_else"] = lambda m, o, f: o if o.tag == 1 else m.call_value(f, [])
M["std::option::Option::or"] = lambda m, o, p: o if o.tag == 1 else p
M["std::option::Option::and"] = lambda m, o, p: p if o.tag == 1 else o
M["std::option::Option::xor"] = lambda m, o, p: o if (o.tag == 1 and p.tag == 0) else p if (p.tag == 1 and o.tag == 0) else NONE()
M["std::option::Option::filter"] = lambda m, o, f: o if (o.tag == 1 and m.branch_bool(m.call_value(f, [Ref(o.fields, 0)]))) else NONE()
M["std::option::Option::as_ref"] = lambda m, r: SOME(Ref(deref(r).fields, 0)) if deref(r).tag == 1 else NONE()
M["std::option::Option::as_mut"] = M["std::option::Option::as_ref"]
M["std::option::Option::as_deref"] = lambda m, r: SOME(g_deref_plain(m, Ref(deref(r).fields, 0))) if deref(r).tag == 1 else NONE()
M["std::option::Option::as_deref_mut"] = M["std::option::Option::as_deref"]
M["std::option::Option::cloned"] = lambda m, o: SOME(deep_clone(deref(o.fields[0]))) if o.tag == 1 else NONE()
M["std::option::Option::copied"] = M["std::option::Option::cloned"]
M["std::option::Option::flatten"] = lambda m, o: o.fields[0] if o.tag == 1 else o
M["std::option::Option::zip"] = lambda m, a, b: SOME(TUP(a.fields[0], b.fields[0])) if a.tag == 1 and b.tag == 1 else NONE()
M["std::option::Option::iter"] = lambda m, r: m.world.to_iter(m, r)
M["std::option::Option::get_or_insert_with"] = lambda m, r, f: (r.set(SOME(m.call_value(f, []))) if r.get().tag == 0 else None, Ref(r.get().fields, 0))[1]
M["std::option::Option::transpose"] = lambda m, o: OK(NONE()) if o.tag == 0 else (OK(SOME(o.fields[0].fields[0])) if o.fields[0].tag == 0 else ERR(o.fields[0].fields[0]))
M["std::result::Result::transpose"] = lambda m, r: (NONE() if r.fields[0].tag == 0 else SOME(OK(r.fields[0].fields[0]))) if r.tag == 0 else SOME(ERR(r.fields[0]))


def g_deref_plain(m, r):
    v = deref(r)
    if isinstance(v, VecObj): return Slice(v, 0, len(v.items))
    if isinstance(v, Str): return v
    if isinstance(v, BoxObj): return Ref(v.fields, 0)
    return r


@model("std::option::Option::unwrap", "std::option::Option::expect")
def option_unwrap(m, o, *msg):
    if o.tag == 1: return o.fields[0]
    m.finding("panic:Option::unwrap", m.where()); raise Panic("Option::unwrap on None")


@model("std::result::Result::unwrap", "std::result::Result::expect")
def result_unwrap(m, r, *msg):
    if r.tag == 0: return r.fields[0]
    m.finding("panic:Result::unwrap", m.where()); raise Panic("Result::unwrap on Err")


@model("std::result::Result::unwrap_err", "std::result::Result::expect_err")
def result_unwrap_err(m, r, *msg):
    if r.tag == 1: return r.fields[0]
    m.finding("panic:Result::unwrap_err", m.where()); raise Panic("Result::unwrap_err on Ok")


@model("std::option::Option::unwrap_or_default")
def option_unwrap_or_default(m, path, o):
    if o.tag == 1: return o.fields[0]
    k = path.find("Option::<")
    if k < 0: raise Unsupported("unwrap_or_default on None needs the type")
    inner = path[k + len("Option::<"):path.rindex(">::unwrap_or_default")]
    return default_of(m, inner)
option_unwrap_or_default.wants_path = True


@model("std::result::Result::unwrap_or_default")
def result_unwrap_or_default(m, path, r):
    if r.tag == 0: return r.fields[0]
    k = path.find("Result::<")
    inner = split_top(path[k + len("Result::<"):path.rindex(">::unwrap_or_default")])[0]
    return default_of(m, inner)
result_unwrap_or_default.wants_path = True


M["std::result::Result::map_err"] = lambda m, r, f: r if r.tag == 0 else ERR(m.call_value(f, [r.fields[0]]))
M["std::result::Result::map"] = lambda m, r, f: OK(m.call_value(f, [r.fields[0]])) if r.tag == 0 else r
M["std::result::Result::or_else"] = lambda m, r, f: r if r.tag == 0 else m.call_value(f, [r.fields[0]])
M["std::result::Result::and_then"] = lambda m, r, f: m.call_value(f, [r.fields[0]]) if r.tag == 0 else r
M["std::result::Result::and"] = lambda m, r, other: other if r.tag == 0 else r
M["std::result::Result::or"] = lambda m, r, other: r if r.tag == 0 else other
M["std::result::Result::ok"] =lambda m, r: SOME(r.fields[0]) if r.tag == 0 else NONE()
M["std::result::Result::err"] = lambda m, r: SOME(r.fields[0]) if r.tag == 1 else NONE()
M["std::result::Result::unwrap_or"] = lambda m, r, d: r.fields[0] if r.tag == 0 else d
M["std::result::Result::unwrap_or_else"] = lambda m, r, f: r.fields[0] if r.tag == 0 else m.call_value(f, [r.fields[0]])
M["std::result::Result::as_ref"] = lambda m, r: Agg("Result", deref(r).tag, [Ref(deref(r).fields, 0)])
M["std::result::Result::is_ok_and"] = lambda m, r, f: m.call_value(f, [r.fields[0]]) if r.tag == 0 else False


@model("<Result as Try>::branch")
def result_branch(m, r):
    if r.tag == 0: return Agg("ControlFlow", 0, [r.fields[0]])
    return Agg("ControlFlow", 1, [ERR(r.fields[0])])


@model("<Result as FromResidual>::from_residual")
def result_from_residual(m, r):
    # `?` converts the error with From; the conversion target is not visible here, callers with a non-identity
    # conversion are handled by the generic model below
    return ERR(r.fields[0])


@generic("<_ as FromResidual>::from_residual")
def g_from_residual(m, path, r):
    from machine import find_as, find_trait_end
    p = path.strip()
    i = find_as(p)
    self_ty = p[1:i]
    rest = p[i + 4:]
    j = find_trait_end(rest)
    res_ty = rest[rest.index("<") + 1:j - 1] if "<" in rest[:j] else ""
    if base_name(self_ty) == "Option": return NONE()
    if base_name(self_ty) != "Result": return NotImplemented
    # Self = Result<T, F>, residual = Result<Infallible, E>: apply F::from(E) when F != E
    st = split_top(self_ty[self_ty.index("<") + 1:-1])
    rt = split_top(res_ty[res_ty.index("<") + 1:-1]) if "<" in res_ty else []
    if len(st) == 2 and len(rt) == 2 and " ".join(st[1].split()) != " ".join(rt[1].split()):
        return ERR(m.call_path(f"<{st[1]} as From<{rt[1]}>>::from", [r.fields[0]]))
    return ERR(r.fields[0])


@model("<Option as Try>::branch")
def option_branch(m, o):
    if o.tag == 1: return Agg("ControlFlow", 0, [o.fields[0]])
    return Agg("ControlFlow", 1, [NONE()])


M["<Option as FromResidual>::from_residual"] = lambda m, r: NONE()
M["<Result as Try>::from_output"] = lambda m, v: OK(v)
M["<Option as Try>::from_output"] = lambda m, v: SOME(v)


# ------------------------------------------------------------------ Vec / slices
def as_list(v):
    v = deref(v)
    if isinstance(v, VecObj): return v.items
    if isinstance(v, Slice): return v.vec.items[v.lo:v.hi]
    raise Unsupported(f"as_list {v!r}")


def as_slice(v):
    v = deref(v)
    if isinstance(v, VecObj): return Slice(v, 0, len(v.items))
    if isinstance(v, Slice): return v
    raise Unsupported(f"as_slice {v!r}")


M["Vec::new"] = lambda m: VecObj()
M["Vec::with_capacity"] = lambda m, n: VecObj()
M["Vec::push"] = lambda m, r, v: (deref(r).items.append(v), UNIT)[1]
M["Vec::len"] = lambda m, r: len(deref(r).items)
M["Vec::is_empty"] = lambda m, r: len(deref(r).items) == 0
M["Vec::clear"] = lambda m, r: (deref(r).items.clear(), UNIT)[1]
M["Vec::reserve"] = lambda m, r, n: UNIT
M["Vec::pop"] = lambda m, r: (SOME(deref(r).items.pop()) if deref(r).items else NONE())
M["Vec::insert"] = lambda m, r, i, v: (deref(r).items.insert(i, v), UNIT)[1]
M["Vec::remove"] = lambda m, r, i: deref(r).items.pop(i)
M["Vec::truncate"] = lambda m, r, n: (deref(r).items.__delitem__(slice(n, None)), UNIT)[1]
M["Vec::as_slice"] = M["Vec::as_mut_slice"] = lambda m, r: as_slice(r)
M["Vec::append"] = lambda m, r, o: (deref(r).items.extend(deref(o).items), deref(o).items.clear(), UNIT)[2]
M["Vec::extend_from_slice"] = lambda m, r, s: (deref(r).items.extend(deep_clone(x) for x in as_list(s)), UNIT)[1]
M["Vec::swap_remove"] = lambda m, r, i: (lambda it: (it.__setitem__(i, it[-1]), it.pop())[1] if i != len(it) - 1 else it.pop())(deref(r).items)
M["Vec::first"] = M["core::slice::first"] = M["slice::first"] = lambda m, s: (lambda sl: NONE() if len(sl) == 0 else SOME(Ref(sl.vec.items, sl.lo)))(as_slice(s))
M["core::slice::last"] = M["slice::last"] = lambda m, s: (lambda sl: NONE() if len(sl) == 0 else SOME(Ref(sl.vec.items, sl.hi - 1)))(as_slice(s))
M["core::slice::last_mut"] = M["core::slice::last"]
M["core::slice::first_mut"] = M["core::slice::first"]
M["core::slice::len"] = M["slice::len"] = lambda m, s: len(as_slice(s))
M["core::slice::is_empty"] = M["slice::is_empty"] = lambda m, s: len(as_slice(s)) == 0
M["core::slice::to_vec"] = lambda m, s: VecObj([deep_clone(x) for x in as_list(s)])


@model("Vec::retain", "Vec::retain_mut")
def vec_retain(m, r, f):
    v = deref(r)
    keep = []
    for i in range(len(v.items)):
        if m.branch_bool(m.call_value(f, [Ref(v.items, i)])): keep.append(v.items[i])
    v.items[:] = keep
    return UNIT


@model("core::slice::split_first", "slice::split_first")
def split_first(m, s):
    s = as_slice(s)
    if len(s) == 0: return NONE()
    return SOME(TUP(Ref(s.vec.items, s.lo), Slice(s.vec, s.lo + 1, s.hi)))


@model("core::slice::split_last", "slice::split_last")
def split_last(m, s):
    s = as_slice(s)
    if len(s) == 0: return NONE()
    return SOME(TUP(Ref(s.vec.items, s.hi - 1), Slice(s.vec, s.lo, s.hi - 1)))


@model("core::slice::split_at", "slice::split_at")
def split_at(m, s, k):
    s = as_slice(s)
    if k > len(s):
        m.finding("panic:slice::split_at", m.where()); raise Panic("split_at")
    return TUP(Slice(s.vec, s.lo, s.lo + k), Slice(s.vec, s.lo + k, s.hi))


@model("core::slice::get", "slice::get", "core::slice::get_mut", "Vec::get")
def slice_get(m, s, i):
    s = as_slice(s)
    if isinstance(i, Agg):
        r = range_bounds(i, len(s))
        if r is None or r[0] > r[1] or r[1] > len(s): return NONE()
        return SOME(Slice(s.vec, s.lo + r[0], s.lo + r[1]))
    if is_sym(i):
        # the slice length is concrete: decide the index against each position
        for j in range(len(s)):
            if m.branch_bool(i == j): return SOME(Ref(s.vec.items, s.lo + j))
        return NONE()
    return SOME(Ref(s.vec.items, s.lo + i)) if 0 <= i < len(s) else NONE()


def range_bounds(rng, n):
    if rng.ty == "RangeTo": return (0, rng.fields[0])
    if rng.ty == "RangeFrom": return (rng.fields[0], n)
    if rng.ty == "Range": return (rng.fields[0], rng.fields[1])
    if rng.ty == "RangeInclusive": return (rng.fields[0], rng.fields[1] + 1)
    if rng.ty == "RangeToInclusive": return (0, rng.fields[0] + 1)
    if rng.ty == "RangeFull": return (0, n)
    return None


@generic("<_ as Index>::index", "<_ as IndexMut>::index_mut")
def g_index(m, path, s, rng):
    v = deref(s)
    if isinstance(v, MapObj):
        return m.world.map_index(m, s, rng)
    if isinstance(v, (VecObj, Slice)):
        sl = as_slice(v)
        if isinstance(rng, Agg):
            r = range_bounds(rng, len(sl))
            if r is None: raise Unsupported(f"slice index {rng!r}")
            if r[0] > r[1] or r[1] > len(sl):
                m.finding("panic:slice-index-out-of-range", m.where()); raise Panic("slice range")
            return Slice(sl.vec, sl.lo + r[0], sl.lo + r[1])
        if is_sym(rng): raise Unsupported("symbolic slice index")
        if not (0 <= rng < len(sl)):
            m.finding("panic:index-out-of-bounds", m.where()); raise Panic("index")
        return Ref(sl.vec.items, sl.lo + rng)
    return NotImplemented


@model("core::slice::contains", "slice::contains")
def slice_contains(m, s, x):
    for it in as_list(s):
        if m.branch_bool(val_eq(m, it, x)): return True
    return False


@model("core::slice::starts_with")
def slice_starts_with(m, s, p):
    a, b = as_list(s), as_list(p)
    if len(b) > len(a): return False
    return and_all(val_eq(m, x, y) for x, y in zip(a, b))


M["core::slice::reverse"] = lambda m, s: (lambda sl: (sl.vec.items.__setitem__(slice(sl.lo, sl.hi), sl.vec.items[sl.lo:sl.hi][::-1]), UNIT)[1])(as_slice(s))
M["core::slice::swap"] = lambda m, s, i, j: (lambda sl: (sl.vec.items.__setitem__(sl.lo + i, sl.vec.items[sl.lo + j]) if False else _swap(sl, i, j), UNIT)[1])(as_slice(s))


def _swap(sl, i, j):
    it = sl.vec.items
    it[sl.lo + i], it[sl.lo + j] = it[sl.lo + j], it[sl.lo + i]


@model("core::slice::concat", "slice::concat")
def slice_concat(m, s):
    out = []
    for it in as_list(s): out.extend(as_list(it))
    return VecObj(out)


@model("std::vec::from_elem")
def vec_from_elem(m, v, n):
    return VecObj([deep_clone(v) for _ in range(n)])


# ------------------------------------------------------------------ strings (names)
M["std::string::String::as_str"] = M["String::as_str"] = lambda m, r: deref(r)
M["std::string::String::new"] = M["String::new"] = lambda m: Str("")
M["std::string::String::len"] = M["String::len"] = M["core::str::len"] = M["str::len"] = lambda m, r: len(m.str_concrete(r).encode())
M["std::string::String::is_empty"] = M["core::str::is_empty"] = M["str::is_empty"] = lambda m, r: len(m.str_concrete(r)) == 0
M["core::str::to_lowercase"] = M["str::to_lowercase"] = lambda m, r: Str(m.str_concrete(r).lower())
M["core::str::to_uppercase"] = M["str::to_uppercase"] = lambda m, r: Str(m.str_concrete(r).upper())
M["core::str::to_ascii_lowercase"] = M["str::to_ascii_lowercase"] = lambda m, r: Str(m.str_concrete(r).lower())
M["core::str::to_ascii_uppercase"] = M["str::to_ascii_uppercase"] = lambda m, r: Str(m.str_concrete(r).upper())
M["core::str::to_string"] = M["str::to_string"] = M["core::str::to_owned"] = M["str::to_owned"] = lambda m, r: deref(r)
M["core::str::as_bytes"] = M["str::as_bytes"] = lambda m, r: VecObj(list(m.str_concrete(r).encode()))
M["core::str::trim"] = M["str::trim"] = lambda m, r: Str(m.str_concrete(r).strip())
M["std::string::String::from_utf8_lossy"] = lambda m, s: Str(bytes(as_list(s)).decode("utf8", "replace"))


@model("std::string::String::push_str", "String::push_str")
def string_push_str(m, r, s):
    r.set(str_concat(m, r.get(), deref(s))); return UNIT


@model("std::string::String::push", "String::push")
def string_push(m, r, c):
    r.set(str_concat(m, r.get(), Str(chr(c)))); return UNIT


def str_concat(m, a, b):
    a, b = deref(a), deref(b)
    if a.s == "": return b
    if b.s == "": return a
    return Str(m.str_concrete(a) + m.str_concrete(b))


@model("core::str::starts_with", "str::starts_with")
def str_starts_with(m, s, p):
    return m.str_concrete(s).startswith(m.str_concrete(p) if not isinstance(deref(p), int) else chr(deref(p)))


@model("core::str::ends_with", "str::ends_with")
def str_ends_with(m, s, p):
    return m.str_concrete(s).endswith(m.str_concrete(p) if not isinstance(deref(p), int) else chr(deref(p)))


@model("core::str::contains", "str::contains")
def str_contains(m, s, p):
    p = deref(p)
    return (chr(p) if isinstance(p, int) else m.str_concrete(p)) in m.str_concrete(s)


def _pat(m, p):
    p = deref(p)
    if isinstance(p, int): return chr(p)
    return m.str_concrete(p)


def _str_list_it(m, parts):
    return m.world.list_iter([Str(x) for x in parts])


M["core::str::split"] = M["str::split"] = lambda m, s, p: _str_list_it(m, m.str_concrete(s).split(_pat(m, p)))
M["core::str::rsplit"] = M["str::rsplit"] = lambda m, s, p: _str_list_it(m, m.str_concrete(s).split(_pat(m, p))[::-1])
M["core::str::splitn"] = M["str::splitn"] = lambda m, s, n, p: _str_list_it(m, m.str_concrete(s).split(_pat(m, p), n - 1))
M["core::str::split_whitespace"] = M["str::split_whitespace"] = lambda m, s: _str_list_it(m, m.str_concrete(s).split())
M["core::str::lines"] = M["str::lines"] = lambda m, s: _str_list_it(m, m.str_concrete(s).splitlines())
M["core::str::chars"] = M["str::chars"] = lambda m, s: m.world.list_iter([ord(c) for c in m.str_concrete(s)])
M["core::str::bytes"] = M["str::bytes"] = lambda m, s: m.world.list_iter(list(m.str_concrete(s).encode()))
M["core::str::char_indices"] = M["str::char_indices"] = lambda m, s: m.world.list_iter([TUP(i, ord(c)) for i, c in enumerate(m.str_concrete(s))])
M["core::str::replace"] = M["str::replace"] = lambda m, s, a, b: Str(m.str_concrete(s).replace(_pat(m, a), m.str_concrete(b)))
M["core::str::trim_start_matches"] = M["str::trim_start_matches"] = lambda m, s, p: Str(_trim_start(m.str_concrete(s), _pat(m, p)))
M["core::str::trim_end_matches"] = M["str::trim_end_matches"] = lambda m, s, p: Str(_trim_end(m.str_concrete(s), _pat(m, p)))
M["core::str::trim_matches"] = M["str::trim_matches"] = lambda m, s, p: Str(_trim_end(_trim_start(m.str_concrete(s), _pat(m, p)), _pat(m, p)))
M["core::str::trim_start"] = M["str::trim_start"] = lambda m, s: Str(m.str_concrete(s).lstrip())
M["core::str::trim_end"] = M["str::trim_end"] = lambda m, s: Str(m.str_concrete(s).rstrip())
M["core::str::is_char_boundary"] = lambda m, s, i: True
M["core::str::find"] = M["str::find"] = lambda m, s, p: (lambda i: SOME(i) if i >= 0 else NONE())(m.str_concrete(s).find(_pat(m, p)))


def _trim_start(s, p):
    while p and s.startswith(p): s = s[len(p):]
    return s


def _trim_end(s, p):
    while p and s.endswith(p): s = s[:-len(p)]
    return s


@model("core::str::split_once", "str::split_once")
def str_split_once(m, s, p):
    t, q = m.str_concrete(s), _pat(m, p)
    i = t.find(q)
    return SOME(TUP(Str(t[:i]), Str(t[i + len(q):]))) if i >= 0 else NONE()


@model("core::str::strip_prefix", "str::strip_prefix")
def str_strip_prefix(m, s, p):
    t, q = m.str_concrete(s), _pat(m, p)
    return SOME(Str(t[len(q):])) if t.startswith(q) else NONE()


@model("core::str::strip_suffix", "str::strip_suffix")
def str_strip_suffix(m, s, p):
    t, q = m.str_concrete(s), _pat(m, p)
    return SOME(Str(t[:len(t) - len(q)])) if q and t.endswith(q) else (SOME(Str(t)) if not q else NONE())


for _n, _f in (("is_ascii_digit", str.isdigit), ("is_alphabetic", str.isalpha), ("is_ascii_alphabetic", str.isalpha), ("is_alphanumeric", str.isalnum),
               ("is_ascii_alphanumeric", str.isalnum), ("is_whitespace", str.isspace), ("is_ascii_whitespace", str.isspace), ("is_uppercase", str.isupper),
               ("is_ascii_uppercase", str.isupper), ("is_lowercase", str.islower), ("is_ascii_lowercase", str.islower)):
    M[f"core::char::methods::{_n}"] = M[f"char::{_n}"] = (lambda f: lambda m, c: f(chr(deref(c))))(_f)
M["core::char::methods::to_ascii_lowercase"] = M["char::to_ascii_lowercase"] = lambda m, c: ord(chr(deref(c)).lower())
M["core::char::methods::to_ascii_uppercase"] = M["char::to_ascii_uppercase"] = lambda m, c: ord(chr(deref(c)).upper())


@model("core::str::eq_ignore_ascii_case", "str::eq_ignore_ascii_case")
def str_eq_ic(m, a, b): return m.str_concrete(a).lower() == m.str_concrete(b).lower()


@generic("<_ as PartialOrd>::partial_cmp", "<_ as Ord>::cmp")
def g_cmp(m, path, a, b):
    a, b = deref(a), deref(b)
    if isinstance(a, Agg) and a.ty not in ("tuple", "Option") and m.world.is_derived(a.ty, path.split(" as ")[-1].split(">")[0].split("::")[-1]) is False:
        return NotImplemented
    r = cmp_values(m, a, b)
    o = Agg("Ordering", r + 1, [])
    return SOME(o) if "partial_cmp" in path else o


def cmp_values(m, a, b):
    a, b = deref(a), deref(b)
    if isinstance(a, Str):
        x, y = m.str_concrete(a), m.str_concrete(b)
        return (x > y) - (x < y)
    if isinstance(a, Agg):
        m.force_tag(a); m.force_tag(b)
        if (a.tag or 0) != (b.tag or 0): return ((a.tag or 0) > (b.tag or 0)) - ((a.tag or 0) < (b.tag or 0))
        for x, y in zip(a.fields, b.fields):
            c = cmp_values(m, x, y)
            if c: return c
        return 0
    if isinstance(a, (VecObj, Slice)):
        xs, ys = as_list(a), as_list(b)
        for x, y in zip(xs, ys):
            c = cmp_values(m, x, y)
            if c: return c
        return (len(xs) > len(ys)) - (len(xs) < len(ys))
    if is_sym(a) or is_sym(b):
        if (is_sym(a) and z3.is_fp(a)) or (is_sym(b) and z3.is_fp(b)): raise Unsupported("cmp of symbolic float")
        if (is_sym(a) and z3.is_int(a)) or (is_sym(b) and z3.is_int(b)):
            lt, eq = a < b, a == b
        else:
            A = a if is_sym(a) else z3.BitVecVal(a, b.size()); B = b if is_sym(b) else z3.BitVecVal(b, a.size())
            lt, eq = z3.ULT(A, B), A == B
        return m.choose([(-1, lt), (0, eq), (1, z3.And(z3.Not(lt), z3.Not(eq)))])
    return (a > b) - (a < b)


@generic("<_ as PartialOrd>::lt", "<_ as PartialOrd>::le", "<_ as PartialOrd>::gt", "<_ as PartialOrd>::ge")
def g_ord_ops(m, path, a, b):
    c = cmp_values(m, a, b)
    op = path.rsplit("::", 1)[-1]
    return {"lt": c < 0, "le": c <= 0, "gt": c > 0, "ge": c >= 0}[op]


def complex_neg(m, c):
    c = deref(c)
    neg1 = lambda x: z3.fpNeg(x) if is_sym(x) else -x
    return Agg(c.ty, None, [neg1(c.fields[0]), neg1(c.fields[1])])


M["<Complex as Neg>::neg"] = complex_neg


def _cparts(v):
    v = deref(v)
    if isinstance(v, Agg): return v.fields[0], v.fields[1]
    return v, 0.0           # a real scalar operand


def _complex_binop(op):
    def f(m, a, b):
        (ar, ai), (br, bi) = _cparts(a), _cparts(b)
        if any(is_sym(x) for x in (ar, ai, br, bi)): raise Unsupported(f"symbolic Complex {op}")
        if op == "add": re, im = ar + br, ai + bi
        elif op == "sub": re, im = ar - br, ai - bi
        else: re, im = ar * br - ai * bi, ar * bi + ai * br
        return Agg("Complex", None, [re, im])
    return f


for _op in ("Add", "Sub", "Mul"):
    M[f"<Complex as {_op}>::{_op.lower()}"] = _complex_binop(_op.lower())


def complex_norm(m, c):
    import math
    re, im = _cparts(c)
    if is_sym(re) or is_sym(im): raise Unsupported("symbolic Complex::norm")
    return math.hypot(re, im)


M["Complex::norm"] = complex_norm


def complex_norm_sqr(m, c):
    re, im = _cparts(c)
    if is_sym(re) or is_sym(im): raise Unsupported("symbolic Complex::norm_sqr")
    return re * re + im * im


M["Complex::norm_sqr"] = complex_norm_sqr


def mem_discriminant(m, r):
    """core::mem::discriminant: an opaque value that compares equal exactly for equal variants"""
    v = deref(r)
    if not isinstance(v, Agg): raise Unsupported(f"discriminant of {v!r}")
    return Agg("Discriminant", None, [v.tag if v.tag is not None else (v.symtag if v.symtag is not None else 0)])


M["std::mem::discriminant"] = M["core::mem::discriminant"] = M["discriminant"] = mem_discriminant


def cmp_min_by_key(m, a, b, f):
    """std::cmp::min_by_key: the first argument when the keys compare equal"""
    ka, kb = m.call_value(f, [Ref([a], 0)]), m.call_value(f, [Ref([b], 0)])
    return b if cmp_values(m, kb, ka) < 0 else a


def cmp_max_by_key(m, a, b, f):
    """std::cmp::max_by_key: the second argument when the keys compare equal"""
    ka, kb = m.call_value(f, [Ref([a], 0)]), m.call_value(f, [Ref([b], 0)])
    return a if cmp_values(m, kb, ka) < 0 else b


M["std::cmp::min_by_key"] = M["core::cmp::min_by_key"] = cmp_min_by_key
M["std::cmp::max_by_key"] = M["core::cmp::max_by_key"] = cmp_max_by_key


@generic("<_ as Ord>::max", "<_ as Ord>::min")
def g_minmax(m, path, a, b):
    c = cmp_values(m, a, b)
    if path.endswith("max"): return b if c <= 0 else a
    return a if c <= 0 else b


M["core::bool::then"] = M["bool::then"] = lambda m, b, f: SOME(m.call_value(f, [])) if m.branch_bool(b) else NONE()
M["core::bool::then_some"] = M["bool::then_some"] = lambda m, b, v: SOME(v) if m.branch_bool(b) else NONE()
M["std::cmp::max"] =lambda m, a, b: b if cmp_values(m, a, b) <= 0 else a
M["std::cmp::min"] = lambda m, a, b: a if cmp_values(m, a, b) <= 0 else b
M["std::ops::Range::is_empty"] = M["Range::is_empty"] = lambda m, r: not (cmp_values(m, deref(r).fields[0], deref(r).fields[1]) < 0)
M["std::ops::Range::contains"] = M["Range::contains"] = lambda m, r, x: cmp_values(m, deref(r).fields[0], deref(x)) <= 0 and cmp_values(m, deref(x), deref(r).fields[1]) < 0
M["std::ops::RangeInclusive::contains"] = lambda m, r, x: cmp_values(m, deref(r).fields[0], deref(x)) <= 0 and cmp_values(m, deref(x), deref(r).fields[1]) <= 0
M["std::ops::Range::len"] = lambda m, r: max(0, deref(r).fields[1] - deref(r).fields[0])
M["std::cmp::Ordering::is_eq"] =lambda m, o: o.tag == 1
M["std::cmp::Ordering::then_with"] = lambda m, o, f: o if o.tag != 1 else m.call_value(f, [])
M["std::cmp::Ordering::then"] = lambda m, o, p: o if o.tag != 1 else p
M["std::cmp::Ordering::reverse"] = lambda m, o: Agg("Ordering", 2 - o.tag, [])

# ------------------------------------------------------------------ numbers
M["Complex::new"] = lambda m, re, im: Agg("Complex", None, [re, im])
M["core::num::<impl u64>::checked_add"] = None


def _checked(op, bits, signed):
    def f(m, a, b):
        if is_sym(a) or is_sym(b): raise Unsupported("symbolic checked_" + op)
        def sg(x): return x - (1 << bits) if signed and x >> (bits - 1) else x
        r = {"add": sg(a) + sg(b), "sub": sg(a) - sg(b), "mul": sg(a) * sg(b)}[op]
        lo, hi = (-(1 << (bits - 1)), (1 << (bits - 1)) - 1) if signed else (0, (1 << bits) - 1)
        return SOME(r & ((1 << bits) - 1)) if lo <= r <= hi else NONE()
    return f


for _t, _b, _s in (("u64", 64, False), ("usize", 64, False), ("u32", 32, False), ("i64", 64, True), ("u8", 8, False)):
    for _op in ("add", "sub", "mul"):
        M[f"core::num::checked_{_op}"] = _checked(_op, 64, False)
del M["core::num::<impl u64>::checked_add"]
def sym_option(cond, value):
    if not is_sym(cond): return SOME(value) if cond else NONE()
    return Agg("Option", None, None, symtag=z3.If(cond, 1, 0), alts={"None": [], "Some": [value]})


def sym_result(cond, value, err=None):
    if not is_sym(cond): return OK(value) if cond else ERR(err if err is not None else UNIT)
    return Agg("Result", None, None, symtag=z3.If(cond, 0, 1), alts={"Ok": [value], "Err": [err if err is not None else UNIT]})


def _int_ty(path, fallback="u64"):
    mm = __import__("re").search(r"<impl (\w+)>", path)
    return mm.group(1) if mm else fallback


def _as_int(v, ty):
    """mathematical integer (z3 Int or python int) of a machine integer of type ty"""
    from machine import INT_BITS
    bits, signed = INT_BITS[ty], ty.startswith("i")
    if is_sym(v):
        # exact integer value as a WIDE signed bit-vector (no BV2Int: keeps the queries in QF_BV)
        return z3.SignExt(WIDE - bits, v) if signed else z3.ZeroExt(WIDE - bits, v)
    return v - (1 << bits) if signed and v >> (bits - 1) else v


WIDE = 264          # enough for the exact product of two 128-bit values


def _wide(x):
    return x if is_sym(x) else z3.BitVecVal(x, WIDE)


def _fits(r, ty):
    from machine import INT_BITS
    bits, signed = INT_BITS[ty], ty.startswith("i")
    lo, hi = (-(1 << (bits - 1)), (1 << (bits - 1)) - 1) if signed else (0, (1 << bits) - 1)
    if is_sym(r): return z3.And(r >= z3.BitVecVal(lo, WIDE), r <= z3.BitVecVal(hi, WIDE))       # signed comparisons on the wide vector
    return lo <= r <= hi


def _wrap(m, op, a, b, ty):
    return m.binop(op, a, b, ty)


def checked_arith(op, other_unsigned=False):
    def f(m, path, a, b):
        from machine import INT_BITS
        ty = _int_ty(path)
        bty = ("u" + ty[1:]) if other_unsigned else ty
        r = {"Add": lambda x, y: x + y, "Sub": lambda x, y: x - y, "Mul": lambda x, y: x * y}[op](_as_int(a, ty), _as_int(b, bty))
        o = sym_option(_fits(r, ty), _wrap(m, op, a, b, ty))
        if o.tag is None: m.force_tag(o)          # the Option / Result method models read a concrete tag: decide it here, by forking
        return o
    f.wants_path = True
    return f


for _op in ("add", "sub", "mul"):
    M[f"core::num::checked_{_op}"] = checked_arith(_op.capitalize())
M["core::num::checked_sub_unsigned"] = checked_arith("Sub", True)
M["core::num::checked_add_unsigned"] = checked_arith("Add", True)


@generic("<_ as TryFrom>::try_from")
def g_try_from(m, path, v):
    from machine import find_as, find_trait_end, INT_BITS
    p = path.strip()
    i = find_as(p)
    dst = base_name(p[1:i])
    rest = p[i + 4:]
    j = find_trait_end(rest)
    src = base_name(rest[rest.index("<") + 1:j - 1]) if "<" in rest[:j] else None
    if dst in INT_BITS and src in INT_BITS and dst != "bool" and src != "bool":
        o = sym_result(_fits(_as_int(v, src), dst), m.cast(v, src, dst, "IntToInt"), Agg("TryFromIntError", None, [UNIT]))
        if o.tag is None: m.force_tag(o)
        return o
    return NotImplemented


@generic("<_ as TryInto>::try_into")
def g_try_into(m, path, v):
    from machine import find_as, find_trait_end
    p = path.strip()
    i = find_as(p)
    src = p[1:i]
    rest = p[i + 4:]
    j = find_trait_end(rest)
    tgt = rest[rest.index("<") + 1:j - 1]
    return m.call_path(f"<{tgt} as TryFrom<{src}>>::try_from", [v])


def _num1(fn):
    def f(m, path, a):
        from machine import INT_BITS
        ty = _int_ty(path)
        return fn(m, a, ty, INT_BITS[ty], ty.startswith("i"))
    f.wants_path = True
    return f


def _unsigned_abs(m, a, ty, bits, signed):
    if is_sym(a): return z3.If(a < 0, -a, a)          # bit pattern of |a| as unsigned (i64::MIN -> 2^63)
    v = a - (1 << bits) if a >> (bits - 1) else a
    return abs(v) & ((1 << bits) - 1)


def _wrapping_neg(m, a, ty, bits, signed):
    if is_sym(a): return -a
    return (-a) & ((1 << bits) - 1)


def _abs(m, a, ty, bits, signed):
    if is_sym(a):
        m.finding("assert:attempt to negate with overflow (abs)", m.where(), a == z3.BitVecVal(1 << (bits - 1), bits))
        return z3.If(a < 0, -a, a)
    v = a - (1 << bits) if a >> (bits - 1) else a
    return abs(v) & ((1 << bits) - 1)


M["core::num::unsigned_abs"] = _num1(_unsigned_abs)
M["core::num::wrapping_neg"] = _num1(_wrapping_neg)
M["core::num::abs"] = _num1(_abs)
M["core::num::is_negative"] = _num1(lambda m, a, ty, bits, signed: (a < 0) if is_sym(a) else bool(a >> (bits - 1)))
M["core::num::is_positive"] = _num1(lambda m, a, ty, bits, signed: (a > 0) if is_sym(a) else (a != 0 and not (a >> (bits - 1))))
M["core::num::count_ones"] = _num1(lambda m, a, ty, bits, signed: bin(a).count("1"))
M["core::num::leading_zeros"] = _num1(lambda m, a, ty, bits, signed: bits - a.bit_length())
M["core::num::trailing_zeros"] = _num1(lambda m, a, ty, bits, signed: (bits if a == 0 else (a & -a).bit_length() - 1))


def _wrapping(op):
    def f(m, path, a, b):
        return m.binop(op, a, b, _int_ty(path))
    f.wants_path = True
    return f


for _op in ("add", "sub", "mul"):
    M[f"core::num::wrapping_{_op}"] = _wrapping(_op.capitalize())


def _saturating(op):
    def f(m, path, a, b):
        from machine import INT_BITS
        ty = _int_ty(path)
        bits, signed = INT_BITS[ty], ty.startswith("i")
        lo, hi = (-(1 << (bits - 1)), (1 << (bits - 1)) - 1) if signed else (0, (1 << bits) - 1)
        r = {"Add": lambda x, y: x + y, "Sub": lambda x, y: x - y, "Mul": lambda x, y: x * y}[op](_as_int(a, ty), _as_int(b, ty))
        w = m.binop(op, a, b, ty)
        if is_sym(r):
            return z3.If(r < lo, z3.BitVecVal(lo & ((1 << bits) - 1), bits), z3.If(r > hi, z3.BitVecVal(hi, bits), w))
        return (lo if r < lo else hi if r > hi else r) & ((1 << bits) - 1)
    f.wants_path = True
    return f


for _op in ("add", "sub", "mul"):
    M[f"core::num::saturating_{_op}"] = _saturating(_op.capitalize())


def _overflowing(op):
    def f(m, path, a, b):
        ty = _int_ty(path)
        r = {"Add": lambda x, y: x + y, "Sub": lambda x, y: x - y, "Mul": lambda x, y: x * y}[op](_as_int(a, ty), _as_int(b, ty))
        fits = _fits(r, ty)
        return TUP(m.binop(op, a, b, ty), neg(fits) if not is_sym(fits) else z3.Not(fits))
    f.wants_path = True
    return f


for _op in ("add", "sub", "mul"):
    M[f"core::num::overflowing_{_op}"] = _overflowing(_op.capitalize())


def num_const(path):
    """`core::num::<impl i64>::MIN` style associated constants"""
    import re as _re
    from machine import INT_BITS
    mm = _re.match(r"^core::num::<impl (\w+)>::(MIN|MAX|BITS)$", path.strip())
    if not mm or mm.group(1) not in INT_BITS: return None
    ty, which = mm.group(1), mm.group(2)
    bits, signed = INT_BITS[ty], ty.startswith("i")
    if which == "BITS": return bits
    if which == "MAX": return (1 << (bits - 1)) - 1 if signed else (1 << bits) - 1
    return (1 << (bits - 1)) if signed else 0          # two's complement bit pattern of MIN


M["core::num::saturating_sub_legacy"] = lambda m, a, b: max(0, a - b)
M["core::num::wrapping_add"] = lambda m, a, b: (a + b) & ((1 << 64) - 1)
M["NonZero::new"] = lambda m, v: SOME(v) if v != 0 else NONE()
M["NonZero::get"] = lambda m, v: v
M["core::f64::abs"] = M["std::f64::abs"] = lambda m, x: abs(x) if not is_sym(x) else z3.fpAbs(x)
M["core::f64::is_nan"] = M["std::f64::is_nan"] = lambda m, x: (x != x) if not is_sym(x) else z3.fpIsNaN(x)
M["core::f64::is_finite"] = lambda m, x: (x == x and abs(x) != float("inf")) if not is_sym(x) else z3.Not(z3.Or(z3.fpIsNaN(x), z3.fpIsInf(x)))
M["core::f64::is_infinite"] = lambda m, x: (abs(x) == float("inf")) if not is_sym(x) else z3.fpIsInf(x)
M["core::f64::to_bits"] = lambda m, x: __import__("machine").f64_bits(x) if not is_sym(x) else z3.fpToIEEEBV(x)
M["core::f64::is_sign_negative"] = lambda m, x: (__import__("math").copysign(1.0, x) < 0) if not is_sym(x) else z3.fpIsNegative(x)
M["core::f64::max"] = lambda m, a, b: (b if a != a else a if b != b else max(a, b)) if not (is_sym(a) or is_sym(b)) else z3.fpMax(_fp(a), _fp(b))
M["core::f64::min"] = lambda m, a, b: (b if a != a else a if b != b else min(a, b)) if not (is_sym(a) or is_sym(b)) else z3.fpMin(_fp(a), _fp(b))


def _fp(x): return x if is_sym(x) else z3.FPVal(x, z3.Float64())
