"""mirsym values: what a MIR local can hold.

Scalars are python int/bool/float when concrete and z3 expressions when symbolic.
Inline aggregates are `Agg`; heap objects (`VecObj`, `MapObj`, `Str`, `BoxObj`, iterators) are shared by reference.
"""
import z3


class Agg:
    """struct / tuple / enum value.

    tag     concrete variant index (enums) or None (structs, tuples, symbolic enums)
    fields  list of field values (None while the tag is symbolic)
    symtag  z3 Int when the variant is a solver variable
    alts    {variant_name: [fields]} for symbolic-tag enums
    """
    __slots__ = ("ty", "tag", "fields", "symtag", "alts")

    def __init__(self, ty, tag, fields, symtag=None, alts=None):
        self.ty, self.tag, self.fields, self.symtag, self.alts = ty, tag, fields, symtag, alts

    def __repr__(self):
        if self.symtag is not None and self.tag is None:
            return f"{self.ty}#?{self.symtag}"
        return f"{self.ty}#{self.tag}{self.fields}" if self.tag is not None else f"{self.ty}{self.fields}"


class LazyAlts(dict):
    """alternatives of a symbolic-tag enum, instantiated on first use (variant name -> field list)"""

    def __init__(self, names, factory):
        super().__init__()
        self.names, self.factory = list(names), factory

    def __missing__(self, k):
        if k not in self.names: raise KeyError(k)
        v = self.factory(k)
        dict.__setitem__(self, k, v)
        return v

    def keys(self):
        return list(self.names)

    def __bool__(self):
        return True

    def clone(self, f):
        c = LazyAlts(self.names, self.factory)
        for k, v in dict.items(self): dict.__setitem__(c, k, [f(x) for x in v])
        return c

    def values(self):
        return [self[k] for k in self.names]

    def items(self):
        return [(k, self[k]) for k in self.names]


def _copy_alts(alts, f):
    if alts is None: return None
    if isinstance(alts, LazyAlts): return alts.clone(f)
    return {k: [f(x) for x in v] for k, v in alts.items()}


class VecObj:
    __slots__ = ("items",)

    def __init__(self, items=None):
        self.items = items if items is not None else []

    def __repr__(self):
        return f"Vec{self.items}"


class Slice:
    """&[T] view into a VecObj"""
    __slots__ = ("vec", "lo", "hi")

    def __init__(self, vec, lo, hi):
        self.vec, self.lo, self.hi = vec, lo, hi

    def __len__(self):
        return self.hi - self.lo

    def __repr__(self):
        return f"&[{self.lo}..{self.hi}]"


class Str:
    """string: concrete python str `s`, or a solver-chosen index `sym` into the alphabet `alpha` (list of str)"""
    __slots__ = ("s", "sym", "alpha")

    def __init__(self, s=None, sym=None, alpha=None):
        self.s, self.sym, self.alpha = s, sym, alpha

    def __repr__(self):
        return repr(self.s) if self.s is not None else f"str?{self.sym}"


class StrBuf:
    """mutable String (a heap object so that &mut String handles work); holds a list of segments"""
    __slots__ = ("segs",)

    def __init__(self, segs=None):
        self.segs = segs if segs is not None else []

    def __repr__(self):
        return f"StrBuf{self.segs}"


class BoxObj:
    __slots__ = ("fields",)

    def __init__(self, v):
        self.fields = [v]

    def __repr__(self):
        return f"Box({self.fields[0]!r})"


class Ref:
    """reference = (container, key); container is a python list or dict"""
    __slots__ = ("cont", "key")

    def __init__(self, cont, key):
        self.cont, self.key = cont, key

    def get(self):
        return self.cont[self.key]

    def set(self, v):
        self.cont[self.key] = v

    def __repr__(self):
        try:
            return "&" + repr(self.get())
        except Exception:
            return "&<dangling>"


class Closure:
    __slots__ = ("name", "caps", "subst")

    def __init__(self, name, caps, subst=None):
        self.name, self.caps, self.subst = name, caps, subst

    def __repr__(self):
        return f"closure<{self.name}>"


class FnItem:
    __slots__ = ("path", "sig")

    def __init__(self, path, sig=""):
        self.path, self.sig = path, sig

    def __repr__(self):
        return f"fn<{self.path}>"


class PyFn:
    """library-level callable (e.g. a nom parser built by a model)"""
    __slots__ = ("f", "label")

    def __init__(self, f, label=""):
        self.f, self.label = f, label

    def __repr__(self):
        return f"pyfn<{self.label}>"


class MapObj:
    """association list [[key, value], ...]; kind in {index, hash, btree}.

    For kind == 'hash' the iteration order is `order` (a permutation chosen by the driver / solver), else insertion."""
    __slots__ = ("kind", "items", "uid")

    def __init__(self, kind, items=None):
        self.kind, self.items, self.uid = kind, items if items is not None else [], None

    def __repr__(self):
        return f"{self.kind}map{self.items}"


class SetObj(MapObj):
    __slots__ = ()

    def __repr__(self):
        return f"{self.kind}set{[k for k, _ in self.items]}"


UNIT = Agg("()", None, [])


def OK(v):
    return Agg("Result", 0, [v])


def ERR(v):
    return Agg("Result", 1, [v])


def SOME(v):
    return Agg("Option", 1, [v])


def NONE():
    return Agg("Option", 0, [])


def TUP(*xs):
    return Agg("tuple", None, list(xs))


def is_sym(v):
    return isinstance(v, z3.ExprRef)


def deref(v):
    while isinstance(v, Ref):
        v = v.get()
    return v


def copy_val(v):
    """bitwise copy of an inline aggregate; heap objects are shared"""
    if isinstance(v, Agg):
        if v.ty in ("Arc", "Rc", "ArcIntern"): return v          # a pointer to a shared heap allocation
        return Agg(v.ty, v.tag, [copy_val(x) for x in v.fields] if v.fields is not None else None, v.symtag, _copy_alts(v.alts, copy_val))
    return v


def deep_clone(v):
    """Clone::clone for structurally-cloned values (derived Clone)"""
    if isinstance(v, Agg):
        if v.ty in ("ArcIntern", "Arc", "Rc", "QubitPlaceholder", "TargetPlaceholder"):
            return v            # shared handle
        return Agg(v.ty, v.tag, [deep_clone(x) for x in v.fields] if v.fields is not None else None, v.symtag, _copy_alts(v.alts, deep_clone))
    if isinstance(v, VecObj):
        return VecObj([deep_clone(x) for x in v.items])
    if isinstance(v, SetObj):
        s = SetObj(v.kind, [[deep_clone(k), vv] for k, vv in v.items]); s.uid = v.uid
        return s
    if isinstance(v, MapObj):
        s = MapObj(v.kind, [[deep_clone(k), deep_clone(vv)] for k, vv in v.items]); s.uid = v.uid
        return s
    if isinstance(v, BoxObj):
        return BoxObj(deep_clone(v.fields[0]))
    if isinstance(v, StrBuf):
        return StrBuf(list(v.segs))
    if isinstance(v, Ref):
        return v
    return v


class Panic(Exception):
    """the interpreted code panics on this path"""


class Unsupported(Exception):
    """the interpreter cannot continue (missing model, unsupported construct, bound hit)"""


class PathEnd(Exception):
    """driver-requested end of path (e.g. outside the claim)"""
