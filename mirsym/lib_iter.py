"""library models: Iterator protocol, adapters, HashMap/HashSet/IndexMap/IndexSet/BTreeMap, itertools"""
import itertools as _it
import z3
from values import *
from mirparse import base_name, strip_generics, split_top
from lib_core import val_eq, and_all, or_any, neg, as_list, as_slice, default_of, cmp_values, str_eq

M = {}
G = {}
STOP = object()


def model(*names):
    def deco(f):
        for n in names: M[n] = f
        return f
    return deco


def generic(*names):
    def deco(f):
        for n in names: G[n] = f
        return f
    return deco


def install(world):
    for k in ("once", "empty", "repeat_n", "zip", "from_fn", "successors"):
        M.setdefault(k, M["std::iter::" + k])
    world.models.update(M)
    world.generic_models.update(G)
    world.to_iter = to_iter
    world.map_index = map_index
    world.collect_list = lambda m, xs, ty: collect_into(m, ListIt(xs), ty)
    world.list_iter = lambda xs: ListIt(xs)


# ------------------------------------------------------------------ iterator objects
class It:
    def nxt(self, m): raise NotImplementedError
    def nxt_back(self, m): raise Unsupported("next_back on " + type(self).__name__)

    def drain(self, m):
        out = []
        while True:
            v = self.nxt(m)
            if v is STOP: return out
            out.append(v)


class ListIt(It):
    def __init__(self, xs): self.xs, self.i, self.j = list(xs), 0, None
    def nxt(self, m):
        hi = len(self.xs) if self.j is None else self.j
        if self.i >= hi: return STOP
        self.i += 1
        return self.xs[self.i - 1]
    def nxt_back(self, m):
        if self.j is None: self.j = len(self.xs)
        if self.j <= self.i: return STOP
        self.j -= 1
        return self.xs[self.j]
    def remaining(self):
        return self.xs[self.i:(len(self.xs) if self.j is None else self.j)]


class MapIt(It):
    def __init__(self, src, f): self.src, self.f = src, f
    def nxt(self, m):
        v = self.src.nxt(m)
        return STOP if v is STOP else m.call_value(self.f, [v])
    def nxt_back(self, m):
        v = self.src.nxt_back(m)
        return STOP if v is STOP else m.call_value(self.f, [v])


class ClonedIt(It):
    def __init__(self, src): self.src = src
    def nxt(self, m):
        v = self.src.nxt(m)
        return STOP if v is STOP else deep_clone(deref(v))
    def nxt_back(self, m):
        v = self.src.nxt_back(m)
        return STOP if v is STOP else deep_clone(deref(v))


class FilterIt(It):
    def __init__(self, src, f): self.src, self.f = src, f
    def nxt(self, m):
        while True:
            v = self.src.nxt(m)
            if v is STOP: return STOP
            if m.branch_bool(m.call_value(self.f, [Ref([v], 0)])): return v
    def nxt_back(self, m):
        while True:
            v = self.src.nxt_back(m)
            if v is STOP: return STOP
            if m.branch_bool(m.call_value(self.f, [Ref([v], 0)])): return v


class FilterMapIt(It):
    def __init__(self, src, f): self.src, self.f = src, f
    def nxt(self, m):
        while True:
            v = self.src.nxt(m)
            if v is STOP: return STOP
            r = m.call_value(self.f, [v])
            m.force_tag(r)
            if r.tag == 1: return r.fields[0]


class ChainIt(It):
    def __init__(self, a, b): self.a, self.b = a, b
    def nxt(self, m):
        if self.a is not None:
            v = self.a.nxt(m)
            if v is not STOP: return v
            self.a = None
        return self.b.nxt(m)


class FlatMapIt(It):
    def __init__(self, src, f): self.src, self.f, self.cur = src, f, None
    def nxt(self, m):
        while True:
            if self.cur is not None:
                v = self.cur.nxt(m)
                if v is not STOP: return v
                self.cur = None
            x = self.src.nxt(m)
            if x is STOP: return STOP
            self.cur = to_iter(m, m.call_value(self.f, [x]) if self.f is not None else x)


class EnumIt(It):
    def __init__(self, src): self.src, self.i = src, 0
    def nxt(self, m):
        v = self.src.nxt(m)
        if v is STOP: return STOP
        self.i += 1
        return TUP(self.i - 1, v)


class ZipIt(It):
    def __init__(self, a, b): self.a, self.b = a, b
    def nxt(self, m):
        x = self.a.nxt(m)
        if x is STOP: return STOP
        y = self.b.nxt(m)
        if y is STOP: return STOP
        return TUP(x, y)


class TakeIt(It):
    def __init__(self, src, n): self.src, self.n = src, n
    def nxt(self, m):
        if self.n <= 0: return STOP
        self.n -= 1
        return self.src.nxt(m)


class SkipIt(It):
    def __init__(self, src, n): self.src, self.n = src, n
    def nxt(self, m):
        while self.n > 0:
            self.n -= 1
            if self.src.nxt(m) is STOP: return STOP
        return self.src.nxt(m)


class TakeWhileIt(It):
    def __init__(self, src, f): self.src, self.f, self.done = src, f, False
    def nxt(self, m):
        if self.done: return STOP
        v = self.src.nxt(m)
        if v is STOP: return STOP
        if m.branch_bool(m.call_value(self.f, [Ref([v], 0)])): return v
        self.done = True
        return STOP


class SkipWhileIt(It):
    def __init__(self, src, f): self.src, self.f, self.started = src, f, False
    def nxt(self, m):
        while True:
            v = self.src.nxt(m)
            if v is STOP: return STOP
            if self.started: return v
            if not m.branch_bool(m.call_value(self.f, [Ref([v], 0)])):
                self.started = True
                return v


class RevIt(It):
    def __init__(self, src): self.src = src
    def nxt(self, m): return self.src.nxt_back(m)
    def nxt_back(self, m): return self.src.nxt(m)


class PeekIt(It):
    def __init__(self, src): self.src, self.buf = src, None
    def nxt(self, m):
        if self.buf is not None:
            v, self.buf = self.buf[0], None
            return v
        return self.src.nxt(m)
    def peek(self, m):
        if self.buf is None: self.buf = [self.src.nxt(m)]
        return self.buf[0]


class RangeIt(It):
    def __init__(self, lo, hi): self.i, self.hi = lo, hi
    def nxt(self, m):
        if self.i >= self.hi: return STOP
        self.i += 1
        return self.i - 1
    def nxt_back(self, m):
        if self.i >= self.hi: return STOP
        self.hi -= 1
        return self.hi


class OnceIt(ListIt):
    pass


class InspectIt(It):
    def __init__(self, src, f): self.src, self.f = src, f
    def nxt(self, m):
        v = self.src.nxt(m)
        if v is not STOP: m.call_value(self.f, [Ref([v], 0)])
        return v


# ------------------------------------------------------------------ containers
def hash_order(m, mp):
    """iteration order of an unordered container: policy of the driver (default: insertion order)"""
    n = len(mp.items)
    pol = getattr(m, "hash_policy", None)
    if pol is None or n < 2: return list(range(n))
    return pol(m, mp)


def ordered_entries(m, mp):
    if mp.kind == "hash":
        return [mp.items[i] for i in hash_order(m, mp)]
    if mp.kind == "btree":
        import functools
        return sorted(mp.items, key=functools.cmp_to_key(lambda a, b: cmp_values(m, a[0], b[0])))
    return list(mp.items)


def find_key(m, mp, k):
    for i, (kk, _) in enumerate(mp.items):
        if m.branch_bool(val_eq(m, kk, k)): return i
    return -1


def map_insert(m, r, k, v):
    mp = deref(r)
    i = find_key(m, mp, k)
    if i >= 0:
        old = mp.items[i][1]; mp.items[i][1] = v
        return SOME(old)
    mp.items.append([k, v])
    return NONE()


def set_insert(m, r, k):
    s = deref(r)
    if find_key(m, s, k) >= 0: return False
    s.items.append([k, UNIT]); return True


def map_index(m, r, k):
    mp = deref(r)
    if isinstance(k, int) and mp.kind == "index" and not isinstance(mp, SetObj):
        return Ref(mp.items[k], 1)
    i = find_key(m, mp, k)
    if i < 0:
        m.finding("panic:map-index-missing-key", m.where()); raise Panic("map index")
    return Ref(mp.items[i], 1)


def to_iter(m, v):
    v0 = v
    v = deref(v)
    if isinstance(v, It): return v
    byref = isinstance(v0, Ref)
    if isinstance(v, VecObj):
        if byref: return ListIt([Ref(v.items, i) for i in range(len(v.items))])
        return ListIt(v.items)
    if isinstance(v, Slice): return ListIt([Ref(v.vec.items, i) for i in range(v.lo, v.hi)])
    if isinstance(v, SetObj):
        es = ordered_entries(m, v)
        if byref: return ListIt([Ref(e, 0) for e in es])
        return ListIt([e[0] for e in es])
    if isinstance(v, MapObj):
        es = ordered_entries(m, v)
        if byref: return ListIt([TUP(Ref(e, 0), Ref(e, 1)) for e in es])
        return ListIt([TUP(e[0], e[1]) for e in es])
    if isinstance(v, Agg) and v.ty == "Option":
        if byref: return ListIt([Ref(v.fields, 0)] if v.tag == 1 else [])
        return ListIt(v.fields if v.tag == 1 else [])
    if isinstance(v, Agg) and v.ty == "Result":
        return ListIt(v.fields if v.tag == 0 else [])
    if isinstance(v, Agg) and v.ty in ("Range",):
        lo, hi = v.fields
        if is_sym(lo) or is_sym(hi): raise Unsupported("symbolic range")
        return RangeIt(lo, hi)
    if isinstance(v, Agg) and v.ty == "RangeFrom":
        if is_sym(v.fields[0]): raise Unsupported("symbolic range")
        return RangeIt(v.fields[0], 1 << 64)
    if isinstance(v, Agg) and v.ty in ("RangeInclusive",):
        return RangeIt(v.fields[0], v.fields[1] + 1)
    if isinstance(v, BoxObj): return to_iter(m, v.fields[0])
    if isinstance(v, Agg) and (v.ty, "Iterator") in m.world.impl_pairs(): return CrateIt(v.ty, v0)
    if isinstance(v, Agg) and (v.ty, "IntoIterator") in m.world.impl_pairs():
        return to_iter(m, m.call_path(f"<{v.ty} as IntoIterator>::into_iter", [v0]))
    raise Unsupported(f"to_iter {v!r}")


def new_container(m, t):
    if t in ("Vec", "VecDeque"): return VecObj()
    if t in ("HashSet", "IndexSet", "BTreeSet"):
        s = SetObj({"HashSet": "hash", "IndexSet": "index", "BTreeSet": "btree"}[t]); s.uid = m.new_uid(); return s
    if t in ("HashMap", "IndexMap", "BTreeMap"):
        s = MapObj({"HashMap": "hash", "IndexMap": "index", "BTreeMap": "btree"}[t]); s.uid = m.new_uid(); return s
    return None


def collect_into(m, it, target):
    t = base_name(target) if target else "Vec"
    if t in ("Result", "Option"):
        inner = target[target.index("<") + 1:target.rindex(">")]
        parts = split_top(inner)
        acc = []
        while True:
            x = it.nxt(m)
            if x is STOP: break
            m.force_tag(x)
            if t == "Result":
                if x.tag == 1: return ERR(x.fields[0])
                acc.append(x.fields[0])
            else:
                if x.tag == 0: return NONE()
                acc.append(x.fields[0])
        c = collect_into(m, ListIt(acc), parts[0])
        return OK(c) if t == "Result" else SOME(c)
    xs = it.drain(m)
    if t == "String":
        out = Str("")
        from lib_core import str_concat
        for x in xs: out = str_concat(m, out, x if not isinstance(x, int) else Str(chr(x)))
        return out
    if t in ("Box",):
        return VecObj(xs)
    c = new_container(m, t)
    if c is None and (t in m.td.structs or t in m.td.enums) and (t, "Extend") in m.world.impl_pairs():
        # a crate collection: Default::default() then Extend::extend (what FromIterator-like adapters such as partition_map do)
        val = m.call_path(f"<{target} as Default>::default", [])
        cell = [val]
        m.call_path(f"<{target} as Extend<_>>::extend", [Ref(cell, 0), ListIt(xs)])
        return cell[0]
    if c is None: raise Unsupported("collect into " + str(target))
    cell = [c]
    extend_container(m, Ref(cell, 0), xs)
    return c


def extend_container(m, r, xs):
    c = deref(r)
    for x in xs:
        if isinstance(c, VecObj): c.items.append(x)
        elif isinstance(c, SetObj): set_insert(m, r, x)
        elif isinstance(c, MapObj): map_insert(m, r, x.fields[0], x.fields[1])
        elif isinstance(c, Str): r.set(__import__("lib_core").str_concat(m, r.get(), x)); c = deref(r)
        else: raise Unsupported(f"extend {c!r}")


# ------------------------------------------------------------------ Iterator trait
@generic("<_ as IntoIterator>::into_iter")
def g_into_iter(m, path, v):
    dv = deref(v)
    if isinstance(dv, Agg) and dv.ty not in ("Option", "Result", "Range", "RangeInclusive", "RangeFrom"):
        if (dv.ty, "Iterator") in m.world.impl_pairs(): return v          # blanket `impl<I: Iterator> IntoIterator for I`
        if (dv.ty, "IntoIterator") in m.world.impl_pairs() and "impl " in path.split(" as ")[0]:
            return m.call_path(f"<{dv.ty} as IntoIterator>::into_iter", [v])
        return NotImplemented
    return to_iter(m, v)


@generic("<_ as Iterator>::next")
def g_next(m, path, r):
    it = deref(r)
    if not isinstance(it, It): return NotImplemented
    v = it.nxt(m)
    return NONE() if v is STOP else SOME(v)


@generic("<_ as DoubleEndedIterator>::next_back")
def g_next_back(m, path, r):
    v = deref(r).nxt_back(m)
    return NONE() if v is STOP else SOME(v)


def _crate_iter(v):
    """crate types implementing Iterator themselves are not `It`s"""
    return isinstance(deref(v), Agg)


class CrateIt(It):
    """wraps a crate value that implements Iterator (interpreted `next`)"""
    def __init__(self, path_ty, val):
        dv = deref(val)
        self.ty, self.cell = (dv.ty if isinstance(dv, Agg) else path_ty), [val]
    def nxt(self, m):
        r = m.call_path(f"<{self.ty} as Iterator>::next", [Ref(self.cell, 0)])
        return r.fields[0] if r.tag == 1 else STOP


def src_iter(m, path, v):
    dv = deref(v)
    if isinstance(dv, Agg) and dv.ty not in ("Option", "Result", "Range", "RangeInclusive", "RangeFrom"):
        from machine import find_as
        p = path.strip()
        return CrateIt(p[1:find_as(p)], v)
    return to_iter(m, v)


def adapter(name):
    def deco(f):
        G[f"<_ as Iterator>::{name}"] = f
        return f
    return deco


@adapter("map")
def i_map(m, path, it, f): return MapIt(src_iter(m, path, it), f)
@adapter("cloned")
def i_cloned(m, path, it): return ClonedIt(src_iter(m, path, it))
G["<_ as Iterator>::copied"] = i_cloned
@adapter("filter")
def i_filter(m, path, it, f): return FilterIt(src_iter(m, path, it), f)
@adapter("filter_map")
def i_filter_map(m, path, it, f): return FilterMapIt(src_iter(m, path, it), f)
@adapter("chain")
def i_chain(m, path, a, b): return ChainIt(src_iter(m, path, a), to_iter_any(m, b))
@adapter("flat_map")
def i_flat_map(m, path, it, f): return FlatMapIt(src_iter(m, path, it), f)
@adapter("flatten")
def i_flatten(m, path, it): return FlatMapIt(src_iter(m, path, it), None)
@adapter("enumerate")
def i_enumerate(m, path, it): return EnumIt(src_iter(m, path, it))
@adapter("zip")
def i_zip(m, path, a, b): return ZipIt(src_iter(m, path, a), to_iter_any(m, b))
@adapter("take")
def i_take(m, path, it, n): return TakeIt(src_iter(m, path, it), n)
@adapter("skip")
def i_skip(m, path, it, n): return SkipIt(src_iter(m, path, it), n)
@adapter("take_while")
def i_take_while(m, path, it, f): return TakeWhileIt(src_iter(m, path, it), f)
@adapter("skip_while")
def i_skip_while(m, path, it, f): return SkipWhileIt(src_iter(m, path, it), f)
@adapter("rev")
def i_rev(m, path, it): return RevIt(src_iter(m, path, it))
@adapter("peekable")
def i_peekable(m, path, it): return PeekIt(src_iter(m, path, it))
@adapter("inspect")
def i_inspect(m, path, it, f): return InspectIt(src_iter(m, path, it), f)
@adapter("by_ref")
def i_by_ref(m, path, r): return r
@adapter("fuse")
def i_fuse(m, path, it): return src_iter(m, path, it)


def to_iter_any(m, v):
    dv = deref(v)
    if isinstance(dv, Agg) and dv.ty not in ("Option", "Result", "Range", "RangeInclusive", "RangeFrom"):
        # IntoIterator for a crate type: run its into_iter
        return to_iter(m, m.call_path(f"<{dv.ty} as IntoIterator>::into_iter", [v]))
    return to_iter(m, v)


@adapter("for_each")
def i_for_each(m, path, it, f):
    s = src_iter(m, path, it)
    while True:
        x = s.nxt(m)
        if x is STOP: return UNIT
        m.call_value(f, [x])


@adapter("collect")
def i_collect(m, path, it):
    mm = path.strip()
    k = mm.rfind("::collect::<")
    target = mm[k + len("::collect::<"):-1] if k >= 0 else None
    return collect_into(m, src_iter(m, path, it), target)


@adapter("count")
def i_count(m, path, it): return len(src_iter(m, path, it).drain(m))
@adapter("last")
def i_last(m, path, it):
    xs = src_iter(m, path, it).drain(m)
    return SOME(xs[-1]) if xs else NONE()
@adapter("nth")
def i_nth(m, path, r, n):
    s = src_iter(m, path, r)
    v = STOP
    for _ in range(n + 1):
        v = s.nxt(m)
        if v is STOP: return NONE()
    return SOME(v)


@adapter("reduce")
def i_reduce(m, path, it, f):
    s = src_iter(m, path, it)
    acc = s.nxt(m)
    if acc is STOP: return NONE()
    while True:
        x = s.nxt(m)
        if x is STOP: return SOME(acc)
        acc = m.call_value(f, [acc, x])


@model("IndexMap::get_key_value", "HashMap::get_key_value", "BTreeMap::get_key_value")
def map_get_key_value(m, r, k):
    mp = deref(r)
    i = find_key(m, mp, k)
    return SOME(TUP(Ref(mp.items[i], 0), Ref(mp.items[i], 1))) if i >= 0 else NONE()


@model("HashSet::get", "IndexSet::get", "BTreeSet::get")
def set_get(m, r, k):
    mp = deref(r)
    i = find_key(m, mp, k)
    return SOME(Ref(mp.items[i], 0)) if i >= 0 else NONE()


@adapter("fold")
def i_fold(m, path, it, init, f):
    acc = init
    s = src_iter(m, path, it)
    while True:
        x = s.nxt(m)
        if x is STOP: return acc
        acc = m.call_value(f, [acc, x])


@adapter("try_fold")
def i_try_fold(m, path, it, init, f):
    acc = init
    s = src_iter(m, path, it)
    while True:
        x = s.nxt(m)
        if x is STOP:
            return try_from_output(m, path, acc)
        r = m.call_value(f, [acc, x])
        m.force_tag(r)
        if r.ty == "Result":
            if r.tag == 1: return r
            acc = r.fields[0]
        elif r.ty == "Option":
            if r.tag == 0: return r
            acc = r.fields[0]
        elif r.ty == "ControlFlow":
            if r.tag == 1: return r
            acc = r.fields[0]
        else: raise Unsupported("try_fold over " + r.ty)


def try_from_output(m, path, acc):
    k = path.rfind("::try_fold::<")
    gens = split_top(path[k + len("::try_fold::<"):-1]) if k >= 0 else []
    rt = base_name(gens[-1]) if gens else "Result"
    return {"Result": OK, "Option": SOME}.get(rt, lambda v: Agg("ControlFlow", 0, [v]))(acc)


@adapter("try_for_each")
def i_try_for_each(m, path, it, f):
    s = src_iter(m, path, it)
    last_ty = "Result"
    while True:
        x = s.nxt(m)
        if x is STOP:
            k = path.rfind("::try_for_each::<")
            gens = split_top(path[k + len("::try_for_each::<"):-1]) if k >= 0 else []
            rt = base_name(gens[-1]) if gens else last_ty
            return {"Result": OK, "Option": SOME}.get(rt, lambda v: Agg("ControlFlow", 0, [v]))(UNIT)
        r = m.call_value(f, [x])
        m.force_tag(r)
        last_ty = r.ty
        if (r.ty == "Result" and r.tag == 1) or (r.ty == "Option" and r.tag == 0) or (r.ty == "ControlFlow" and r.tag == 1): return r


@adapter("all")
def i_all(m, path, it, f):
    s = src_iter(m, path, it)
    while True:
        x = s.nxt(m)
        if x is STOP: return True
        if not m.branch_bool(m.call_value(f, [x])): return False


@adapter("any")
def i_any(m, path, it, f):
    s = src_iter(m, path, it)
    while True:
        x = s.nxt(m)
        if x is STOP: return False
        if m.branch_bool(m.call_value(f, [x])): return True


@adapter("find")
def i_find(m, path, it, f):
    s = src_iter(m, path, it)
    while True:
        x = s.nxt(m)
        if x is STOP: return NONE()
        if m.branch_bool(m.call_value(f, [Ref([x], 0)])): return SOME(x)


@adapter("find_map")
def i_find_map(m, path, it, f):
    s = src_iter(m, path, it)
    while True:
        x = s.nxt(m)
        if x is STOP: return NONE()
        r = m.call_value(f, [x])
        m.force_tag(r)
        if r.tag == 1: return r


@adapter("position")
def i_position(m, path, it, f):
    s = src_iter(m, path, it)
    i = 0
    while True:
        x = s.nxt(m)
        if x is STOP: return NONE()
        if m.branch_bool(m.call_value(f, [x])): return SOME(i)
        i += 1


@adapter("max")
def i_max(m, path, it):
    xs = src_iter(m, path, it).drain(m)
    if not xs: return NONE()
    best = xs[0]
    for x in xs[1:]:
        if cmp_values(m, x, best) >= 0: best = x
    return SOME(best)


@adapter("min")
def i_min(m, path, it):
    xs = src_iter(m, path, it).drain(m)
    if not xs: return NONE()
    best = xs[0]
    for x in xs[1:]:
        if cmp_values(m, x, best) < 0: best = x
    return SOME(best)


@adapter("max_by_key")
def i_max_by_key(m, path, it, f):
    xs = src_iter(m, path, it).drain(m)
    if not xs: return NONE()
    best, bk = xs[0], m.call_value(f, [Ref([xs[0]], 0)])
    for x in xs[1:]:
        k = m.call_value(f, [Ref([x], 0)])
        if cmp_values(m, k, bk) >= 0: best, bk = x, k
    return SOME(best)


@adapter("min_by_key")
def i_min_by_key(m, path, it, f):
    xs = src_iter(m, path, it).drain(m)
    if not xs: return NONE()
    best, bk = xs[0], m.call_value(f, [Ref([xs[0]], 0)])
    for x in xs[1:]:
        k = m.call_value(f, [Ref([x], 0)])
        if cmp_values(m, k, bk) < 0: best, bk = x, k
    return SOME(best)


@adapter("max_by")
def i_max_by(m, path, it, f):
    xs = src_iter(m, path, it).drain(m)
    if not xs: return NONE()
    best = xs[0]
    for x in xs[1:]:
        o = m.call_value(f, [Ref([best], 0), Ref([x], 0)])
        m.force_tag(o)
        if o.tag != 2: best = x
    return SOME(best)


@adapter("sum")
def i_sum(m, path, it):
    xs = src_iter(m, path, it).drain(m)
    k = path.rfind("::sum::<")
    ty = path[k + 8:-1] if k >= 0 else "usize"
    acc = 0.0 if ty == "f64" else 0
    for x in xs:
        x = deref(x)
        acc = m.binop("Add", acc, x, ty)
    return acc


@adapter("partition")
def i_partition(m, path, it, f):
    a, b = [], []
    for x in src_iter(m, path, it).drain(m):
        (a if m.branch_bool(m.call_value(f, [Ref([x], 0)])) else b).append(x)
    k = path.rfind("::partition::<")
    gens = split_top(path[k + len("::partition::<"):-1]) if k >= 0 else ["Vec"]
    ca, cb = collect_into(m, ListIt(a), gens[0]), collect_into(m, ListIt(b), gens[0])
    return TUP(ca, cb)


@adapter("unzip")
def i_unzip(m, path, it):
    xs = src_iter(m, path, it).drain(m)
    k = path.rfind("::unzip::<")
    gens = split_top(path[k + len("::unzip::<"):-1]) if k >= 0 else []
    ta, tb = (gens[2], gens[3]) if len(gens) >= 4 else ("Vec", "Vec")
    return TUP(collect_into(m, ListIt([x.fields[0] for x in xs]), ta), collect_into(m, ListIt([x.fields[1] for x in xs]), tb))


@adapter("size_hint")
def i_size_hint(m, path, it): return TUP(0, NONE())


@generic("<_ as Extend>::extend")
def g_extend(m, path, r, src):
    extend_container(m, r, to_iter_any(m, src).drain(m))
    return UNIT


@generic("<_ as FromIterator>::from_iter")
def g_from_iter(m, path, src):
    from machine import find_as
    p = path.strip()
    return collect_into(m, to_iter_any(m, src), p[1:find_as(p)])


@generic("<_ as ExactSizeIterator>::len")
def g_exact_len(m, path, r):
    it = deref(r)
    if isinstance(it, ListIt): return len(it.remaining())
    return len(it.drain(m)) if False else (_ for _ in ()).throw(Unsupported("ExactSizeIterator::len"))


M["Vec::extend"] = lambda m, r, src: g_extend(m, "", r, src)
M["core::slice::iter"] = M["slice::iter"] = M["core::slice::iter_mut"] = M["slice::iter_mut"] = lambda m, s: to_iter(m, s if isinstance(s, Ref) else Ref([s], 0))
M["Vec::iter"] = M["Vec::iter_mut"] = M["core::slice::iter"]
M["Vec::drain"] = lambda m, r, rng: (lambda v: (lambda xs: (v.items.clear(), ListIt(xs))[1])(list(v.items)))(deref(r))
M["std::iter::once"] = lambda m, v: ListIt([v])
M["std::iter::empty"] = lambda m: ListIt([])
M["std::iter::repeat_n"] = lambda m, v, n: ListIt([deep_clone(v) for _ in range(n)])
M["std::iter::zip"] = lambda m, a, b: ZipIt(to_iter_any(m, a), to_iter_any(m, b))
M["Peekable::peek"] = lambda m, r: (lambda v: NONE() if v is STOP else SOME(Ref([v], 0)))(deref(r).peek(m))
M["std::iter::Peekable::peek"] = M["Peekable::peek"]


@model("std::iter::from_fn")
def iter_from_fn(m, f):
    class FromFn(It):
        def nxt(self, mm):
            r = mm.call_value(f, [])
            mm.force_tag(r)
            return r.fields[0] if r.tag == 1 else STOP
    return FromFn()


@model("std::iter::successors")
def iter_successors(m, first, f):
    class Succ(It):
        def __init__(self): self.cur = first
        def nxt(self, mm):
            c = self.cur
            if c.tag == 0: return STOP
            v = c.fields[0]
            self.cur = mm.call_value(f, [Ref([v], 0)])
            mm.force_tag(self.cur)
            return v
    return Succ()


# ------------------------------------------------------------------ maps and sets
for _nm in ("IndexMap", "HashMap", "BTreeMap"):
    _kind = {"IndexMap": "index", "HashMap": "hash", "BTreeMap": "btree"}[_nm]

    def _mk(kind):
        def new(m, *a):
            mp = MapObj(kind); mp.uid = m.new_uid(); return mp
        return new
    for _ctor in ("new", "with_capacity", "with_hasher", "with_capacity_and_hasher"):
        M[f"{_nm}::{_ctor}"] = _mk(_kind)
    M[f"{_nm}::insert"] = map_insert
    M[f"{_nm}::len"] = lambda m, r: len(deref(r).items)
    M[f"{_nm}::is_empty"] = lambda m, r: len(deref(r).items) == 0
    M[f"{_nm}::clear"] = lambda m, r: (deref(r).items.clear(), UNIT)[1]
    M[f"{_nm}::reserve"] = lambda m, r, n: UNIT
    M[f"{_nm}::iter"] = M[f"{_nm}::iter_mut"] = lambda m, r: to_iter(m, r)
    M[f"{_nm}::keys"] = lambda m, r: ListIt([Ref(e, 0) for e in ordered_entries(m, deref(r))])
    M[f"{_nm}::values"] = M[f"{_nm}::values_mut"] = lambda m, r: ListIt([Ref(e, 1) for e in ordered_entries(m, deref(r))])
    M[f"{_nm}::into_values"] = lambda m, v: ListIt([e[1] for e in ordered_entries(m, v)])
    M[f"{_nm}::into_keys"] = lambda m, v: ListIt([e[0] for e in ordered_entries(m, v)])
    M[f"{_nm}::drain"] = lambda m, r, *a: (lambda mp: (lambda es: (mp.items.clear(), ListIt([TUP(e[0], e[1]) for e in es]))[1])(ordered_entries(m, mp)))(deref(r))


@model("IndexMap::get", "HashMap::get", "BTreeMap::get", "IndexMap::get_mut", "HashMap::get_mut", "BTreeMap::get_mut")
def map_get(m, r, k):
    mp = deref(r)
    i = find_key(m, mp, k)
    return SOME(Ref(mp.items[i], 1)) if i >= 0 else NONE()


@model("BTreeMap::range")
def btree_range(m, r, rng):
    """entries whose key lies in the range (concrete integer keys and bounds)"""
    mp = deref(r)
    rg = deref(rng)
    es = ordered_entries(m, mp)
    lo, hi = None, None            # inclusive bounds
    if isinstance(rg, Agg):
        f = rg.fields
        if rg.ty == "RangeToInclusive": hi = f[0]
        elif rg.ty == "RangeTo": hi = f[0] - 1
        elif rg.ty == "RangeFrom": lo = f[0]
        elif rg.ty == "Range": lo, hi = f[0], f[1] - 1
        elif rg.ty == "RangeInclusive": lo, hi = f[0], f[1]
        elif rg.ty == "RangeFull": pass
        else: raise Unsupported(f"BTreeMap::range over {rg.ty}")
    if any(is_sym(x) for x in (lo, hi) if x is not None) or any(is_sym(e[0]) for e in es): raise Unsupported("BTreeMap::range with symbolic keys")
    return ListIt([TUP(Ref(e, 0), Ref(e, 1)) for e in es if (lo is None or e[0] >= lo) and (hi is None or e[0] <= hi)])


@model("IndexMap::contains_key", "HashMap::contains_key", "BTreeMap::contains_key", "HashSet::contains", "IndexSet::contains", "BTreeSet::contains")
def map_contains(m, r, k):
    return find_key(m, deref(r), k) >= 0


@model("IndexMap::get_index_of", "IndexSet::get_index_of")
def map_get_index_of(m, r, k):
    i = find_key(m, deref(r), k)
    return SOME(i) if i >= 0 else NONE()


@model("IndexMap::get_full")
def map_get_full(m, r, k):
    mp = deref(r)
    i = find_key(m, mp, k)
    return SOME(TUP(i, Ref(mp.items[i], 0), Ref(mp.items[i], 1))) if i >= 0 else NONE()


@model("IndexMap::get_index", "IndexMap::get_index_mut")
def map_get_index(m, r, i):
    mp = deref(r)
    return SOME(TUP(Ref(mp.items[i], 0), Ref(mp.items[i], 1))) if 0 <= i < len(mp.items) else NONE()


@model("IndexSet::get_index")
def set_get_index(m, r, i):
    mp = deref(r)
    return SOME(Ref(mp.items[i], 0)) if 0 <= i < len(mp.items) else NONE()


@model("HashMap::remove", "BTreeMap::remove", "IndexMap::shift_remove")
def map_remove(m, r, k):
    mp = deref(r)
    i = find_key(m, mp, k)
    if i < 0: return NONE()
    e = mp.items.pop(i)
    return SOME(e[1])


@model("IndexMap::swap_remove", "IndexMap::remove")
def map_swap_remove(m, r, k):
    mp = deref(r)
    i = find_key(m, mp, k)
    if i < 0: return NONE()
    e = mp.items[i]
    last = mp.items.pop()
    if i < len(mp.items): mp.items[i] = last
    return SOME(e[1])


@model("HashSet::remove", "BTreeSet::remove", "IndexSet::shift_remove")
def set_remove(m, r, k):
    mp = deref(r)
    i = find_key(m, mp, k)
    if i < 0: return False
    mp.items.pop(i)
    return True


@model("IndexSet::pop")
def set_pop(m, r):
    mp = deref(r)
    if not mp.items: return NONE()
    return SOME(mp.items.pop()[0])


@model("IndexMap::pop")
def map_pop(m, r):
    mp = deref(r)
    if not mp.items: return NONE()
    e = mp.items.pop()
    return SOME(TUP(e[0], e[1]))


@model("IndexMap::retain", "HashMap::retain", "BTreeMap::retain")
def map_retain(m, r, f):
    mp = deref(r)
    keep = []
    for e in list(mp.items):
        if m.branch_bool(m.call_value(f, [Ref(e, 0), Ref(e, 1)])): keep.append(e)
    mp.items[:] = keep
    return UNIT


@model("IndexSet::retain", "HashSet::retain", "BTreeSet::retain")
def set_retain(m, r, f):
    mp = deref(r)
    keep = []
    for e in list(mp.items):
        if m.branch_bool(m.call_value(f, [Ref(e, 0)])): keep.append(e)
    mp.items[:] = keep
    return UNIT


@model("IndexMap::extend", "HashMap::extend")
def map_extend(m, r, src):
    extend_container(m, r, to_iter_any(m, src).drain(m)); return UNIT


@model("IndexMap::entry", "HashMap::entry", "BTreeMap::entry")
def map_entry(m, r, k):
    mp = deref(r)
    i = find_key(m, mp, k)
    if i >= 0: return Agg("Entry", 0, [mp, i, k])
    return Agg("Entry", 1, [mp, None, k])


def _entry_slot(m, e, mk):
    mp, i, k = e.fields
    if e.tag == 0: return Ref(mp.items[i], 1)
    mp.items.append([k, mk()])
    return Ref(mp.items[-1], 1)


for _p in ("std::collections::hash_map::Entry", "indexmap::map::Entry", "std::collections::btree_map::Entry", "Entry"):
    M[f"{_p}::or_insert"] = lambda m, e, v: _entry_slot(m, e, lambda: v)
    M[f"{_p}::or_insert_with"] = lambda m, e, f: _entry_slot(m, e, lambda: m.call_value(f, []))
    M[f"{_p}::or_default"] = None
    M[f"{_p}::and_modify"] = lambda m, e, f: (m.call_value(f, [Ref(e.fields[0].items[e.fields[1]], 1)]) if e.tag == 0 else None, e)[1]


def entry_or_default(m, path, e):
    if e.tag == 0: return _entry_slot(m, e, None)
    # value type = last generic argument of Entry<'a, K, V>
    k = path.find("Entry::<")
    gens = split_top(path[k + 8:path.rindex(">::or_default")]) if k >= 0 else []
    if not gens: raise Unsupported("or_default: value type unknown in " + path[:120])
    vt = [g for g in gens if not g.startswith("'")][1]
    return _entry_slot(m, e, lambda: default_of(m, vt))
entry_or_default.wants_path = True
for _p in ("std::collections::hash_map::Entry", "indexmap::map::Entry", "std::collections::btree_map::Entry", "Entry"):
    M[f"{_p}::or_default"] = entry_or_default

for _nm in ("IndexSet", "HashSet", "BTreeSet"):
    _kind = {"IndexSet": "index", "HashSet": "hash", "BTreeSet": "btree"}[_nm]

    def _mk(kind):
        def new(m, *a):
            s = SetObj(kind); s.uid = m.new_uid(); return s
        return new
    for _ctor in ("new", "with_capacity", "with_hasher", "with_capacity_and_hasher"):
        M[f"{_nm}::{_ctor}"] = _mk(_kind)
    M[f"{_nm}::insert"] = set_insert
    M[f"{_nm}::len"] = lambda m, r: len(deref(r).items)
    M[f"{_nm}::is_empty"] = lambda m, r: len(deref(r).items) == 0
    M[f"{_nm}::clear"] = lambda m, r: (deref(r).items.clear(), UNIT)[1]
    M[f"{_nm}::iter"] = lambda m, r: to_iter(m, r)
    M[f"{_nm}::extend"] = lambda m, r, src: (extend_container(m, r, to_iter_any(m, src).drain(m)), UNIT)[1]
    M[f"{_nm}::drain"] = lambda m, r, *a: (lambda mp: (lambda es: (mp.items.clear(), ListIt([e[0] for e in es]))[1])(ordered_entries(m, mp)))(deref(r))


@model("IndexSet::insert_full")
def set_insert_full(m, r, k):
    s = deref(r)
    i = find_key(m, s, k)
    if i >= 0: return TUP(i, False)
    s.items.append([k, UNIT]); return TUP(len(s.items) - 1, True)


@model("IndexMap::insert_full")
def map_insert_full(m, r, k, v):
    mp = deref(r)
    i = find_key(m, mp, k)
    if i >= 0:
        old = mp.items[i][1]; mp.items[i][1] = v
        return TUP(i, SOME(old))
    mp.items.append([k, v]); return TUP(len(mp.items) - 1, NONE())


def _set_op(name):
    def f(m, a, b):
        A, B = deref(a), deref(b)
        out = []
        if name == "union":
            out = [Ref(e, 0) for e in ordered_entries(m, A)]
            for e in ordered_entries(m, B):
                if find_key(m, A, e[0]) < 0: out.append(Ref(e, 0))
        elif name == "intersection":
            out = [Ref(e, 0) for e in ordered_entries(m, A) if find_key(m, B, e[0]) >= 0]
        elif name == "difference":
            out = [Ref(e, 0) for e in ordered_entries(m, A) if find_key(m, B, e[0]) < 0]
        return ListIt(out)
    return f


for _nm in ("HashSet", "IndexSet", "BTreeSet"):
    for _op in ("union", "intersection", "difference"):
        M[f"{_nm}::{_op}"] = _set_op(_op)
    M[f"{_nm}::is_subset"] = lambda m, a, b: all(find_key(m, deref(b), e[0]) >= 0 for e in deref(a).items)
    M[f"{_nm}::is_superset"] = lambda m, a, b: all(find_key(m, deref(a), e[0]) >= 0 for e in deref(b).items)
    M[f"{_nm}::is_disjoint"] = lambda m, a, b: all(find_key(m, deref(b), e[0]) < 0 for e in deref(a).items)


# ------------------------------------------------------------------ sorting
def _sort_by(m, s, cmpf):
    import functools
    sl = as_slice(s)
    xs = sl.vec.items[sl.lo:sl.hi]
    xs.sort(key=functools.cmp_to_key(cmpf))
    sl.vec.items[sl.lo:sl.hi] = xs
    return UNIT


M["core::slice::sort"] = M["slice::sort"] = M["core::slice::sort_unstable"] = lambda m, s: _sort_by(m, s, lambda a, b: cmp_values(m, a, b))
M["core::slice::sort_by_key"] = M["slice::sort_by_key"] = M["core::slice::sort_unstable_by_key"] = M["core::slice::sort_by_cached_key"] = \
    lambda m, s, f: _sort_by(m, s, lambda a, b: cmp_values(m, m.call_value(f, [Ref([a], 0)]), m.call_value(f, [Ref([b], 0)])))


def _ord_to_int(m, o):
    m.force_tag(o)
    return o.tag - 1


M["core::slice::sort_by"] = M["slice::sort_by"] = M["core::slice::sort_unstable_by"] = \
    lambda m, s, f: _sort_by(m, s, lambda a, b: _ord_to_int(m, m.call_value(f, [Ref([a], 0), Ref([b], 0)])))
M["Vec::dedup"] = lambda m, r: (lambda v: (v.items.__setitem__(slice(None), [x for i, x in enumerate(v.items) if i == 0 or not m.branch_bool(val_eq(m, v.items[i - 1], x))]), UNIT)[1])(deref(r))


# ------------------------------------------------------------------ itertools
@generic("<_ as Itertools>::fold_ok")
def it_fold_ok(m, path, it, init, f):
    acc = init
    for x in src_iter(m, path, it).drain(m):
        m.force_tag(x)
        if x.tag == 1: return x
        acc = m.call_value(f, [acc, x.fields[0]])
    return OK(acc)


@generic("<_ as Itertools>::all_equal_value")
def it_all_equal_value(m, path, it):
    xs = src_iter(m, path, it).drain(m)
    if not xs: return ERR(NONE())
    for x in xs[1:]:
        if not m.branch_bool(val_eq(m, xs[0], x)): return ERR(SOME(TUP(xs[0], x)))
    return OK(xs[0])


@generic("<_ as Itertools>::all_equal")
def it_all_equal(m, path, it):
    xs = src_iter(m, path, it).drain(m)
    for x in xs[1:]:
        if not m.branch_bool(val_eq(m, xs[0], x)): return False
    return True


@generic("<_ as Itertools>::collect_vec")
def it_collect_vec(m, path, it): return VecObj(src_iter(m, path, it).drain(m))


@generic("<_ as Itertools>::partition_map")
def it_partition_map(m, path, it, f):
    a, b = [], []
    for x in src_iter(m, path, it).drain(m):
        r = m.call_value(f, [x]); m.force_tag(r)
        (a if r.tag == 0 else b).append(r.fields[0])
    k = path.rfind("::partition_map::<")
    gens = split_top(path[k + len("::partition_map::<"):-1]) if k >= 0 else ["Vec", "Vec"]
    return TUP(collect_into(m, ListIt(a), gens[0]), collect_into(m, ListIt(b), gens[1]))


@generic("<_ as Itertools>::sorted")
def it_sorted(m, path, it):
    import functools
    xs = src_iter(m, path, it).drain(m)
    xs.sort(key=functools.cmp_to_key(lambda a, b: cmp_values(m, a, b)))
    return ListIt(xs)


@generic("<_ as Itertools>::unique", "<_ as Itertools>::dedup")
def it_unique(m, path, it):
    out = []
    for x in src_iter(m, path, it).drain(m):
        if not any(m.branch_bool(val_eq(m, x, y)) for y in out): out.append(x)
    return ListIt(out)


@generic("<_ as Itertools>::try_collect")
def it_try_collect(m, path, it):
    k = path.rfind("::try_collect::<")
    gens = split_top(path[k + len("::try_collect::<"):-1]) if k >= 0 else []
    acc = []
    for x in src_iter(m, path, it).drain(m):
        m.force_tag(x)
        if x.tag == 1: return x
        acc.append(x.fields[0])
    return OK(collect_into(m, ListIt(acc), gens[1] if len(gens) > 1 else "Vec"))
