"""World: everything shared by all paths of one check run (MIR module, type definitions, models, caches)."""
import hashlib, os, re, subprocess, sys, time, collections
from mirparse import *
from typedefs import TypeDefs
from values import *

REPO = os.environ.get("VERIF_REPO", "/repo")
VERIF = os.path.dirname(os.path.dirname(os.path.abspath(__file__)))
CACHE = os.path.join(VERIF, ".cache")
NIGHTLY = os.environ.get("VERIF_NIGHTLY", "nightly")


def source_hash():
    h = hashlib.sha256()
    root = os.path.join(REPO, "quil-rs")
    files = [os.path.join(REPO, "Cargo.lock"), os.path.join(REPO, "Cargo.toml"), os.path.join(root, "Cargo.toml"), os.path.join(root, "build.rs")]
    for dp, dn, fs in os.walk(os.path.join(root, "src")):
        dn.sort()
        for fn in sorted(fs):
            files.append(os.path.join(dp, fn))
    for f in files:
        if os.path.exists(f):
            h.update(f.encode()); h.update(open(f, "rb").read())
    return h.hexdigest()


def mir_dump(log=sys.stderr):
    """MIR text of the current /repo tree (cached by source hash). Raises BuildError if the tree does not compile."""
    sha = source_hash()
    d = os.path.join(CACHE, "mir")
    os.makedirs(d, exist_ok=True)
    path = os.path.join(d, sha + ".mir")
    if os.path.exists(path) and os.path.getsize(path) > 1000:
        return path, sha, 0.0
    lock = os.path.join(d, "lock")
    import fcntl
    with open(lock, "w") as lf:
        fcntl.flock(lf, fcntl.LOCK_EX)
        if os.path.exists(path) and os.path.getsize(path) > 1000:
            return path, sha, 0.0
        t0 = time.time()
        env = dict(os.environ, CARGO_NET_OFFLINE="true", RUSTUP_TOOLCHAIN=NIGHTLY)
        env.pop("RUSTFLAGS", None)
        lib = os.path.join(REPO, "quil-rs", "src", "lib.rs")
        cmd = ["cargo", "rustc", "--offline", "--lib", "--target-dir", os.path.join(CACHE, "mir-target"), "--",
               "-Zunpretty=mir", "-Zverbose-internals", "-C", "debug-assertions=off", "-C", "overflow-checks=on"]
        tmp = path + ".tmp%d" % os.getpid()
        # force rustc to run even when cargo thinks the lib is fresh: change the metadata through an env var
        env["CARGO_BUILD_RUSTFLAGS"] = ""
        with open(tmp, "w") as out:
            # touching is not possible (we must not modify /repo); a fresh `-C metadata=` value makes cargo re-run rustc
            p = subprocess.run(cmd + ["-C", "metadata=%s%x" % (sha[:12], int(time.time()))], cwd=os.path.join(REPO, "quil-rs"), stdout=out, stderr=subprocess.PIPE, text=True, env=env)
        if p.returncode != 0 or os.path.getsize(tmp) < 1000:
            err = p.stderr[-3000:]
            os.unlink(tmp)
            raise BuildError(err)
        os.rename(tmp, path)
        # keep the cache small
        olds = sorted((os.path.getmtime(os.path.join(d, f)), f) for f in os.listdir(d) if f.endswith(".mir"))
        for _, f in olds[:-4]:
            os.unlink(os.path.join(d, f))
        return path, sha, time.time() - t0


class BuildError(Exception):
    pass


class World:
    def __init__(self, mir_path=None, srcroot=REPO):
        if mir_path is None:
            mir_path, self.mir_sha, self.dump_s = mir_dump()
        else:
            self.mir_sha, self.dump_s = "given", 0.0
        self.mir_path = mir_path
        self.srcroot = srcroot
        self.mod = Module(mir_path)
        self.td = TypeDefs(os.path.join(srcroot, "quil-rs", "src"))
        self.models, self.generic_models, self.lib_closures = {}, {}, {}
        self.ext_structs = {}
        self.item_cache, self.const_cache = {}, {}
        self.switch_cache = {}
        self.key_cache, self.zcache = {}, {}
        self.zst_cache, self.term_cache = {}, {}
        self._derived = None
        self._impl = None
        self._pairs = None
        self._fn_generics = {}
        self._src = {}
        self._defaults = {}
        self.counters = collections.Counter()
        import lib_core, lib_iter, lib_nom, lib_fmt, lib_graph
        for l in (lib_core, lib_iter, lib_nom, lib_fmt, lib_graph):
            l.install(self)

    def count(self, k, n=1):
        self.counters[k] += n

    # ---- source access
    def src_lines(self, f):
        if f not in self._src:
            self._src[f] = open(os.path.join(self.srcroot, f)).read().split("\n")
        return self._src[f]

    def src_span(self, f, l1, c1, l2, c2):
        L = self.src_lines(f)
        if l1 == l2: return L[l1 - 1][c1 - 1:c2 - 1]
        return "\n".join([L[l1 - 1][c1 - 1:]] + L[l1:l2 - 1] + [L[l2 - 1][:c2 - 1]])

    def next_item_name(self, f, l):
        for ln in self.src_lines(f)[l - 1:]:
            m = re.search(r"\b(?:struct|enum)\s+(\w+)", ln)
            if m: return m.group(1)
        return "?"

    def source_const(self, short):
        out = subprocess.run(["grep", "-rhoE", f"const {short}: &('static )?str = \"[^\"]*\"", os.path.join(self.srcroot, "quil-rs/src")],
                             capture_output=True, text=True).stdout
        mm = re.search(r'= "([^"]*)"', out)
        return Str(mm.group(1)) if mm else None

    # ---- impl table
    def impl_index(self):
        if self._impl is None:
            idx = {}
            self.impl_spans = {}
            self.impl_targs = {}
            self.impl_derived = {}
            self.impl_gen, self.fn_impl = {}, {}
            for name in self.mod.index:
                m = re.search(r".*<impl at ([^:>]+):(\d+):(\d+): (\d+):(\d+)>::(.*)$", name)     # the LAST impl segment (impls nested in fn bodies)
                if not m: continue
                f, l1, c1, l2, c2, meth = m.groups()
                key = (f, l1, c1, l2, c2)
                if key not in self.impl_spans:
                    txt = self.src_span(f, int(l1), int(c1), int(l2), int(c2))
                    derived = not txt.startswith("impl")
                    if not derived:
                        t = " ".join(txt.split())
                        t = t[match_angle(t, 4) + 1:].strip() if t.startswith("impl<") else t[4:].strip()
                        t = t.split(" where ")[0]
                        if top_find_for(t) >= 0:
                            k = top_find_for(t)
                            trait, ty = t[:k], t[k + 5:]
                        else: trait, ty = None, t
                    else:
                        trait, ty = txt, self.next_item_name(f, int(l1))
                    targs = []
                    if trait and "<" in trait:
                        targs = [base_name(a) for a in split_top(trait[trait.index("<") + 1:trait.rindex(">")]) if not a.strip().startswith("'")]
                    self.impl_spans[key] = (base_name(ty), base_name(trait) if trait else None, derived, targs)
                    # generic parameters of the impl and the Self type's arguments (for substitution at call sites)
                    params, self_args = [], []
                    if not derived:
                        full = " ".join(txt.split())
                        if full.startswith("impl<"):
                            g = full[5:match_angle(full, 4)]
                            params = [re.split(r"[:=]", p, 1)[0].strip() for p in split_top(g) if not p.strip().startswith("'")]
                            params = [p.replace("const ", "").strip() for p in params]
                        tt = ty.strip()
                        if "<" in tt and tt.endswith(">"):
                            self_args = [a.strip() for a in split_top(tt[tt.index("<") + 1:-1]) if not a.strip().startswith("'")]
                    self.impl_gen[key] = (params, self_args)
                tb, trb, derived, targs = self.impl_spans[key]
                idx.setdefault((tb, trb, meth), []).append(name)
                self.impl_targs[name] = targs
                self.impl_derived[name] = derived
                self.fn_impl[name] = key
            self._impl = idx
        return self._impl

    def call_subst(self, fn_name, self_ty_text):
        """{impl type parameter -> concrete type text} for a call to `fn_name` whose Self type was printed as
        `self_ty_text` (e.g. `DependencyQueue<MemoryAccessType>`); {} when the impl is not generic"""
        key = self.fn_impl.get(re.sub(r"::\{closure#\d+\}.*$", "", fn_name))
        if key is None or not self_ty_text: return {}
        params, self_args = self.impl_gen.get(key, ([], []))
        if not params or not self_args: return {}
        t = self_ty_text.strip()
        if "<" not in t: return {}
        call_args = [a.strip() for a in split_top(t[t.index("<") + 1:t.rindex(">")]) if not a.strip().startswith("'")]
        out = {}
        for formal, actual in zip(self_args, call_args):
            if formal in params and actual not in params and not re.fullmatch(r"[A-Z]\w{0,2}", actual):
                out[formal] = actual
        return out

    def fn_generics(self, fn_name):
        """type-parameter names of a crate fn item, read from the source (`fn name<A, B: Bound>`); [] when not generic.
        The file comes from the impl span in the item name; lifetimes and const parameters are skipped."""
        base = re.sub(r"::\{closure#\d+\}.*$", "", fn_name)
        c = self._fn_generics.get(base)
        if c is not None: return c
        short = base.rsplit("::", 1)[-1]
        files = []
        mm = re.findall(r"<impl at ([^:>]+):\d+:\d+: \d+:\d+>", base)
        if mm: files = [mm[-1]]
        else:
            root = os.path.join(self.srcroot, "quil-rs/src")
            for dp, _, fs in os.walk(root):
                files += [os.path.relpath(os.path.join(dp, f), self.srcroot) for f in fs if f.endswith(".rs")]
        hits = []
        for f in files:
            try: text = "\n".join(self.src_lines(f))
            except Exception: continue
            for m0 in re.finditer(r"\bfn\s+" + re.escape(short) + r"\s*<", text):
                i, d = m0.end(), 1
                j = i
                while j < len(text) and d:
                    ch = text[j]
                    if ch == "<": d += 1
                    elif ch == ">" and text[j - 1] not in "-=": d -= 1
                    j += 1
                names = []
                for part in split_top(text[i:j - 1]):
                    part = part.strip()
                    if not part or part.startswith("'") or part.startswith("const "): continue
                    names.append(re.match(r"\w+", part).group(0))
                hits.append(names)
        out = hits[0] if len(hits) == 1 or (hits and all(h == hits[0] for h in hits)) else []
        self._fn_generics[base] = out
        return out

    def pick_impl(self, cands, trait_text):
        """choose among several impls of the same trait for the same type by the trait's generic arguments"""
        if not cands: return None
        if len(cands) == 1 or not trait_text or "<" not in trait_text: return cands[0]
        want = [base_name(a) for a in split_top(trait_text[trait_text.index("<") + 1:trait_text.rindex(">")]) if not a.strip().startswith("'")]
        for c in cands:
            if self.impl_targs.get(c) == want: return c
        return cands[0]

    def impl_pairs(self):
        if self._pairs is None:
            self._pairs = {(t, tr) for (t, tr, _) in self.impl_index()}
        return self._pairs

    def is_derived(self, ty, trait):
        if self._derived is None:
            self.impl_index()
            self._derived = {}
            for (tb, trb, d, _) in self.impl_spans.values():
                self._derived.setdefault((tb, trb), d)
        return self._derived.get((ty, trait))

    def trait_default(self, trait, meth):
        k = (trait, meth)
        if k not in self._defaults:
            suffix = f"{trait}::{meth}"
            hit = None
            for name in self.mod.index:
                if name == suffix or name.endswith("::" + suffix):
                    hit = name; break
            self._defaults[k] = hit
        return self._defaults[k]

    def place_ty(self, fn, toks):
        for t in reversed(toks):
            if t[0] == "field": return t[2]
            if t[0] == "local": return fn.locals.get(t[1])
            if t[0] == "deref":
                continue
            return None
        return None


def top_find_for(t):
    d = 0
    for i, c in enumerate(t):
        if c in "<([{": d += 1
        elif c in ")]}" or (c == ">" and t[i - 1] not in "-="): d -= 1
        elif d == 0 and t.startswith(" for ", i): return i
    return -1


def match_angle(s, i):
    d = 0
    for j in range(i, len(s)):
        if s[j] == "<": d += 1
        elif s[j] == ">" and s[j - 1] not in "-=":
            d -= 1
            if d == 0: return j
    raise SyntaxError("angle")
