#!/bin/sh
# Build everything the checks need from files on disk (offline): replay runner (dev) and the MIR dump of the current tree.
set -e
cd "$(dirname "$0")"
export CARGO_NET_OFFLINE=true
mkdir -p .cache evidence
cp /repo/Cargo.lock replay/Cargo.lock
(cd replay && RUSTFLAGS="--cfg rigetti_quil_rs_verif" CARGO_TARGET_DIR=../.cache/replay-target cargo build --offline --quiet)
python3-vt - <<'PY'
import sys
sys.path.insert(0, "mirsym")
import world
p, sha, s = world.mir_dump()
print("MIR", sha[:12], "dumped in %.1fs" % s, p)
PY
